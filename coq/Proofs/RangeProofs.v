(* Men stand on board squares (and black pawns / en-passant squares below the last rank, which is what keeps a pawn's
   target on the board): `range`, preserved by make_search_move for every generated move. *)
From Coq Require Import NArith ZArith List Bool Lia.
From JV Require Import Gen.Consts Model.Bits Model.Chess Model.Abs Proofs.BitboardProofs Proofs.MoveGenProofs Proofs.MakeProofs
  Proofs.ZobristProofs Proofs.KeyProofs Proofs.GenProofs Proofs.ConsProofs Proofs.GenOk Proofs.KingsProofs.
Import ListNotations.
Local Open Scope N_scope.

Record range (g : game) : Prop := mkRange {
  r_sq : forall p s, p < 12 -> tb (bb g p) s = true -> s < 64;
  r_bp : forall s, tb (bb g BP) s = true -> s < 56;
  r_wp : forall s, tb (bb g WP) s = true -> 8 <= s;
  r_ep : ep g <> NOSQ -> 8 <= ep g < 56 }.

Record move_rng (g : game) (m : move) : Prop := mkRng {
  g_t64 : mto m < 64;
  g_bp : mpiece m = BP -> mpromo m = NOPIECE -> mto m < 56;
  g_wp : mpiece m = WP -> mpromo m = NOPIECE -> 8 <= mto m;
  g_dp : mdp m = true -> 8 <= (if white g then mto m + 8 else mto m - 8) < 56;
  g_pr : mpromo m <> BP /\ mpromo m <> WP }.

Section Sub.
Variables (g : game) (m : move) (vic : N).
Hypothesis C : cons g.
Hypothesis K : move_ok g m.
Hypothesis V : mcap m = true -> mep m = false -> In vic (victims (white g)) /\ tb (bb g vic) (mto m) = true.

(* every man of the resulting position was there before, or is the moved / promoted man on the target, or the hopped rook *)
Lemma D_sub q s : q < 12 -> sb (ops_D g m vic) q s = true ->
  tb (bb g q) s = true \/
  (s = mto m /\ ((q = mpiece m /\ mpromo m = NOPIECE) \/ (q = mpromo m /\ mpromo m <> NOPIECE))) \/
  (mcastle m = true /\ q = rook_of (white g) /\ s = hop_a (mto m)).
Proof.
  intros Q12 H.
  pose proof (A_ok g m C K) as AOK. destruct (B_ok g m vic C K V) as (BOK & _ & BSUB). pose proof (C_ok g m vic C K V) as COK.
  pose proof (k_p12 g m K) as P12.
  assert (ASUB : forall s', sb (ops_A g m) q s' = true -> tb (bb g q) s' = true).
  { intros s' X. rewrite (sb_A g m C K) in X. destruct (q =? mpiece m); [apply andb_true_iff in X; tauto|exact X]. }
  assert (CSUB : forall s', sb (ops_C g m vic) q s' = true -> tb (bb g q) s' = true \/ (s' = mto m /\ q = mpiece m)).
  { intros s' X. rewrite (sb_C g m vic C K V) in X. destruct (N.eqb_spec q (mpiece m)) as [E|NE].
    - apply orb_true_iff in X. destruct X as [X|X]; [left; apply ASUB; apply BSUB; assumption|right; apply N.eqb_eq in X; split; congruence].
    - left. apply ASUB. apply BSUB; assumption. }
  unfold ops_D in H. cbn zeta in H. destruct (negb (mpromo m =? NOPIECE)) eqn:PR.
  - apply negb_true_iff, N.eqb_neq in PR. destruct (k_promo g m K PR) as (PR12 & _ & PNE & _).
    assert (T : sb (ops_C g m vic) (mpiece m) (mto m) = true) by (rewrite (sb_C g m vic C K V), !N.eqb_refl; apply orb_true_r).
    rewrite sb_put in H; [|apply take_ok; assumption|exact PR12]. rewrite sb_take in H; [|exact COK|exact P12].
    destruct (N.eqb_spec q (mpromo m)) as [EQ|NQ].
    + destruct (N.eqb_spec q (mpiece m)) as [EP|NP]; [congruence|]. apply orb_true_iff in H. destruct H as [H|H].
      * destruct (CSUB s H) as [X|[_ X]]; [left; exact X|congruence].
      * apply N.eqb_eq in H. right. left. split; [congruence|]. right. split; assumption.
    + destruct (N.eqb_spec q (mpiece m)) as [EP|NP].
      * apply andb_true_iff in H. destruct H as [H NT]. destruct (CSUB s H) as [X|[X _]]; [left; exact X|].
        subst s. rewrite N.eqb_refl in NT. discriminate.
      * destruct (CSUB s H) as [X|[_ X]]; [left; exact X|congruence].
  - apply negb_false_iff, N.eqb_eq in PR. destruct (mcastle m) eqn:CS.
    + assert (R12 : rook_of (white g) < 12) by (unfold rook_of; destruct (white g); reflexivity).
      destruct (k_castle g m K CS) as (CAP & _ & _ & CASES).
      assert (T : sb (ops_C g m vic) (rook_of (white g)) (hop_b (mto m)) = true).
      { assert (NEP : rook_of (white g) <> mpiece m) by (destruct CASES as [(W & PK & _)|(W & PK & _)]; rewrite W, PK; discriminate).
        rewrite (sb_C g m vic C K V). destruct (N.eqb_spec (rook_of (white g)) (mpiece m)); [contradiction|].
        unfold ops_B. rewrite CAP. rewrite (sb_A g m C K). destruct (N.eqb_spec (rook_of (white g)) (mpiece m)); [contradiction|].
        unfold rook_of, hop_b.
        destruct CASES as [(W & PK & [(T1 & E1 & R1)|(T1 & E1 & R1)])|(W & PK & [(T1 & E1 & R1)|(T1 & E1 & R1)])]; rewrite W, T1; exact R1. }
      rewrite sb_put in H; [|apply take_ok; assumption|exact R12]. rewrite sb_take in H; [|exact COK|exact R12].
      destruct (N.eqb_spec q (rook_of (white g))) as [EQ|NQ].
      * apply orb_true_iff in H. destruct H as [H|H].
        -- apply andb_true_iff in H. destruct H as [H _]. destruct (CSUB s H) as [X|[X1 X2]]; [left; exact X|].
           right. left. split; [exact X1|]. left. split; assumption.
        -- apply N.eqb_eq in H. right. right. repeat split; congruence.
      * destruct (CSUB s H) as [X|[X1 X2]]; [left; exact X|]. right. left. split; [exact X1|]. left. split; assumption.
    + destruct (CSUB s H) as [X|[X1 X2]]; [left; exact X|]. right. left. split; [exact X1|]. left. split; assumption.
Qed.
End Sub.

Theorem make_range g m g' : cons g -> range g -> move_ok g m -> move_rng g m -> make_search_move g m = Made g' -> range g'.
Proof.
  intros C R K G H. destruct (made_st_eq g m g' C K H) as (vic & V & E).
  destruct (make_scalars g m g' H) as (SW & _ & _ & _ & EG).
  assert (SUB : forall q s, q < 12 -> tb (bb g' q) s = true -> _) by (intros q s Q X; change (tb (bb g' q) s) with (sb (st_of g') q s) in X; rewrite (e_bs _ _ E) in X; exact (D_sub g m vic C K V q s Q X)).
  constructor.
  - intros q s Q X. destruct (SUB q s Q X) as [Y|[(-> & _)|(CS & _ & ->)]].
    + apply (r_sq g R q s Q Y).
    + apply (g_t64 g m G).
    + unfold hop_a. destruct (mto m =? 62); [reflexivity|]. destruct (mto m =? 58); [reflexivity|]. destruct (mto m =? 6); reflexivity.
  - intros s X. destruct (SUB BP s ltac:(reflexivity) X) as [Y|[(-> & [(PB & PR)|(PB & PR)])|(CS & RK & _)]].
    + apply (r_bp g R s Y).
    + apply (g_bp g m G); [symmetry; exact PB|exact PR].
    + exfalso. apply (proj1 (g_pr g m G)). symmetry. exact PB.
    + exfalso. unfold rook_of in RK. destruct (white g); discriminate.
  - intros s X. destruct (SUB WP s ltac:(reflexivity) X) as [Y|[(-> & [(PB & PR)|(PB & PR)])|(CS & RK & _)]].
    + apply (r_wp g R s Y).
    + apply (g_wp g m G); [symmetry; exact PB|exact PR].
    + exfalso. apply (proj2 (g_pr g m G)). symmetry. exact PB.
    + exfalso. unfold rook_of in RK. destruct (white g); discriminate.
  - rewrite EG. destruct (mdp m) eqn:DP; [|intros X; exfalso; apply X; reflexivity]. intros _. apply (g_dp g m G DP).
Qed.
Print Assumptions make_range.

Section GenRng.
Variable g : game.
Hypothesis C : cons g.
Hypothesis R : range g.

Lemma occ_lt64 (white_occ : bool) t : tb (if white_occ then wocc g else bocc g) t = true -> t < 64.
Proof.
  destruct white_occ; intros H.
  - apply (c_wocc g C) in H. destruct H as (q & Q & T). apply (r_sq g R q t); [lia|exact T].
  - apply (c_bocc g C) in H. destruct H as (q & Q & T). apply (r_sq g R q t); [lia|exact T].
Qed.

Lemma quiet_lt64 a occ t : In t (bits_of (N.land a (N.land (N.lnot occ 64) M64))) -> t < 64.
Proof.
  intros H. apply in_bits in H. rewrite !land_bit in H. apply andb_true_iff in H. destruct H as [_ H].
  apply andb_true_iff in H. destruct H as [_ H2].
  change M64 with (N.ones 64) in H2. unfold tb in H2. destruct (N.lt_ge_cases t 64) as [L|G]; [exact L|].
  rewrite N.ones_spec_high in H2 by exact G. discriminate.
Qed.

Ltac mkrng := constructor; cbn [mfrom mto mpiece mpromo mcap mep mdp mcastle mk]; try discriminate.

Lemma rng_simple f t p cap : t < 64 -> (p = BP -> t < 56) -> (p = WP -> 8 <= t) -> move_rng g (mk f t p NOPIECE cap false false false).
Proof. intros T B Wp. mkrng; [exact T|intros E _; apply B; exact E|intros E _; apply Wp; exact E|split; discriminate]. Qed.

Lemma rng_promos m f t p q n r b cap : t < 64 ->
  (forall x, In x [q; n; r; b] -> x <> BP /\ x <> WP /\ x <> NOPIECE) ->
  In m (promos f t p q n r b cap) -> move_rng g m.
Proof.
  intros T OKP H. apply in_promos in H.
  destruct H as [-> | [-> | [-> | ->]]]; mkrng; try assumption;
    try (intros _ X; match type of X with ?x = NOPIECE => destruct (OKP x ltac:(cbn; auto)) as (_ & _ & Y); congruence end);
    match goal with |- ?x <> BP /\ _ => destruct (OKP x ltac:(cbn; auto)) as (Y1 & Y2 & _); split; assumption end.
Qed.

Lemma piece_moves_rng all (white_opp : bool) p att m : p <> BP -> p <> WP ->
  In m (piece_moves g all (if white_opp then wocc g else bocc g) p att) -> move_rng g m.
Proof.
  intros NB NW H. unfold piece_moves in H. apply in_flat_map in H. destruct H as (f & _ & H). apply in_app_or in H. destruct H as [H|H].
  - destruct all; [|destruct H]. apply in_map_iff in H. destruct H as (t & <- & Ht). apply rng_simple; [eapply quiet_lt64; exact Ht|congruence|congruence].
  - apply in_map_iff in H. destruct H as (t & <- & Ht). apply in_bits in Ht. rewrite land_bit in Ht. apply andb_true_iff in Ht.
    apply rng_simple; [apply (occ_lt64 white_opp); tauto|congruence|congruence].
Qed.

Ltac finrng := try lia; try (split; discriminate); try (unfold WP, BP; intros E; discriminate E);
  try (intros _ _; lia); try (intros _ _; assumption).

Lemma promo_list_ok q n r b : In q [1;2;3;4;7;8;9;10] -> In n [1;2;3;4;7;8;9;10] -> In r [1;2;3;4;7;8;9;10] -> In b [1;2;3;4;7;8;9;10] ->
  forall x, In x [q; n; r; b] -> x <> BP /\ x <> WP /\ x <> NOPIECE.
Proof.
  intros Q Nn Rr B x [<-|[<-|[<-|[<-|[]]]]];
    match goal with HH : In ?y _ |- ?y <> _ /\ _ => cbn in HH; repeat (destruct HH as [<-|HH]; [repeat split; discriminate|]); destruct HH end.
Qed.

Theorem generated_rng all m : In m (generate_moves g all) -> move_rng g m.
Proof.
  intros H. unfold generate_moves in H.
  assert (CM : forall r e k c w t kg, t < 64 -> kg <> BP -> kg <> WP -> In m (castle_move g all r e k c w t kg) -> move_rng g m).
  { intros r e k c w t kg T NB NW X. unfold castle_move in X. destruct (_ && _ && _ && _ && _); [|destruct X]. destruct X as [<-|[]].
    mkrng; [exact T|intros E; congruence|intros E; congruence|split; discriminate]. }
  assert (WPR : forall x, In x [WQ; WN; WR; WB] -> x <> BP /\ x <> WP /\ x <> NOPIECE) by (apply promo_list_ok; cbn; auto 10).
  assert (BPR : forall x, In x [BQ; BN; BR; BB] -> x <> BP /\ x <> WP /\ x <> NOPIECE) by (apply promo_list_ok; cbn; auto 10).
  destruct (white g) eqn:W; repeat (apply in_app_or in H; destruct H as [H|H]);
    try (refine (CM _ _ _ _ _ _ _ _ _ _ H); [reflexivity|discriminate|discriminate]);
    try (refine (piece_moves_rng all false _ _ m _ _ H); discriminate);
    try (refine (piece_moves_rng all true _ _ m _ _ H); discriminate).
  - (* white pawns *)
    apply in_flat_map in H. destruct H as (f & Hf & H). apply in_bits in Hf.
    pose proof (r_sq g R WP f ltac:(reflexivity) Hf) as F64. pose proof (r_wp g R f Hf) as F8.
    unfold white_pawn_moves in H. cbn zeta in H. apply in_app_or in H. destruct H as [H|H].
    + destruct (all && negb (get_bit (aocc g) (f - 8))); [|destruct H]. destruct (8 <=? f - 8) eqn:R8.
      * apply N.leb_le in R8. destruct H as [<-|H]; [apply rng_simple; [lia|discriminate|intros _; lia]|].
        destruct (negb (get_bit (aocc g) (f - 8 - 8)) && (f / 8 =? 6)) eqn:D; [|destruct H]. destruct H as [<-|[]].
        apply andb_true_iff in D. destruct D as [_ D6]. apply N.eqb_eq in D6.
        assert (F48 : 48 <= f). { pose proof (N.div_mod f 8 ltac:(lia)) as X. rewrite D6 in X. revert X. generalize (f mod 8). clear. intros r X. lia. }
        mkrng; finrng; try (intros _; rewrite W; lia).
      * eapply rng_promos; [|exact WPR|exact H]. lia.
    + apply in_app_or in H. destruct H as [H|H].
      * destruct (negb (ep g =? NOSQ) && _) eqn:E; [|destruct H]. destruct H as [<-|[]].
        apply andb_true_iff in E. destruct E as [E _]. apply negb_true_iff, N.eqb_neq in E. pose proof (r_ep g R E).
        mkrng; finrng.
      * apply in_flat_map in H. destruct H as (t & Ht & H). apply in_bits in Ht. rewrite land_bit in Ht. apply andb_true_iff in Ht. destruct Ht as [_ Ht].
        pose proof (occ_lt64 false t Ht) as T64. destruct (8 <=? t) eqn:R8.
        -- apply N.leb_le in R8. destruct H as [<-|[]]. apply rng_simple; [exact T64|discriminate|intros _; exact R8].
        -- eapply rng_promos; [|exact WPR|exact H]. exact T64.
  - (* black pawns *)
    apply in_flat_map in H. destruct H as (f & Hf & H). apply in_bits in Hf.
    pose proof (r_bp g R f Hf) as F56.
    unfold black_pawn_moves in H. cbn zeta in H. apply in_app_or in H. destruct H as [H|H].
    + destruct (all && negb (get_bit (aocc g) (f + 8))); [|destruct H]. destruct (f + 8 <=? 55) eqn:B55.
      * apply N.leb_le in B55. destruct H as [<-|H]; [apply rng_simple; [lia|intros _; lia|discriminate]|].
        destruct (negb (get_bit (aocc g) (f + 8 + 8)) && (f / 8 =? 1)) eqn:D; [|destruct H]. destruct H as [<-|[]].
        apply andb_true_iff in D. destruct D as [_ D6]. apply N.eqb_eq in D6.
        assert (F16 : f < 16). { pose proof (N.div_mod f 8 ltac:(lia)) as X. rewrite D6 in X. pose proof (N.mod_lt f 8 ltac:(lia)) as Y. revert X Y. generalize (f mod 8). clear. intros r X Y. lia. }
        mkrng; finrng; try (intros _; rewrite W; lia).
      * eapply rng_promos; [|exact BPR|exact H]. lia.
    + apply in_app_or in H. destruct H as [H|H].
      * destruct (negb (ep g =? NOSQ) && _) eqn:E; [|destruct H]. destruct H as [<-|[]].
        apply andb_true_iff in E. destruct E as [E _]. apply negb_true_iff, N.eqb_neq in E. pose proof (r_ep g R E).
        mkrng; finrng.
      * apply in_flat_map in H. destruct H as (t & Ht & H). apply in_bits in Ht. rewrite land_bit in Ht. apply andb_true_iff in Ht. destruct Ht as [_ Ht].
        pose proof (occ_lt64 true t Ht) as T64. destruct (t <=? 55) eqn:B55.
        -- apply N.leb_le in B55. destruct H as [<-|[]]. apply rng_simple; [exact T64|intros _; lia|discriminate].
        -- eapply rng_promos; [|exact BPR|exact H]. exact T64.
Qed.
End GenRng.
Print Assumptions generated_rng.
