(* C04 / C02 (the generator side): every move generate_moves produces for a consistent position fits the position
   (Abs.move_fits, the precondition of the incremental-key theorem of Proofs/KeyProofs.v).
   `cons` is consistency at the bit level: twelve pairwise disjoint piece sets, the three occupancy sets are their unions,
   a castling right implies king and rook on their home squares, an en-passant square is empty with the pawn behind it. *)
From Coq Require Import NArith ZArith List Bool Lia.
From JV Require Import Gen.Consts Model.Bits Model.Chess Model.Abs Proofs.BitboardProofs Proofs.MoveGenProofs Proofs.ZobristProofs Proofs.KeyProofs.
Import ListNotations.
Local Open Scope N_scope.

Definition tb (b s : N) : bool := N.testbit b s.

Record cons (g : game) : Prop := mkCons {
  c_len : length (bbs g) = 12%nat;
  c_disj : forall p q s, p < 12 -> q < 12 -> p <> q -> tb (bb g p) s = true -> tb (bb g q) s = false;
  c_wocc : forall s, tb (wocc g) s = true <-> exists p, p < 6 /\ tb (bb g p) s = true;
  c_bocc : forall s, tb (bocc g) s = true <-> exists p, 6 <= p < 12 /\ tb (bb g p) s = true;
  c_aocc : forall s, tb (aocc g) s = tb (wocc g) s || tb (bocc g) s;
  c_cK : tb (castling g) 0 = true -> tb (bb g WK) 60 = true /\ tb (bb g WR) 63 = true;
  c_cQ : tb (castling g) 1 = true -> tb (bb g WK) 60 = true /\ tb (bb g WR) 56 = true;
  c_ck : tb (castling g) 2 = true -> tb (bb g BK) 4 = true /\ tb (bb g BR) 7 = true;
  c_cq : tb (castling g) 3 = true -> tb (bb g BK) 4 = true /\ tb (bb g BR) 0 = true;
  c_ep : ep g <> NOSQ -> tb (aocc g) (ep g) = false /\
         (if white g then tb (bb g BP) (ep g + 8) else tb (bb g WP) (ep g - 8)) = true
}.

Section Gen.
Variable g : game.
Hypothesis C : cons g.

Lemma occ_clear p t : p < 12 -> tb (aocc g) t = false -> tb (bb g p) t = false.
Proof.
  intros P A. destruct (tb (bb g p) t) eqn:T; [|reflexivity]. exfalso.
  rewrite (c_aocc g C) in A. apply orb_false_iff in A. destruct A as [A1 A2].
  destruct (N.lt_ge_cases p 6) as [L|G].
  - assert (X : tb (wocc g) t = true) by (apply (c_wocc g C); exists p; split; assumption). congruence.
  - assert (X : tb (bocc g) t = true) by (apply (c_bocc g C); exists p; split; [lia|assumption]). congruence.
Qed.
Lemma bocc_clear_white p t : p < 6 -> tb (bocc g) t = true -> tb (bb g p) t = false.
Proof.
  intros P B. apply (c_bocc g C) in B. destruct B as (q & Q & T). apply (c_disj g C q p t); try lia; exact T.
Qed.
Lemma wocc_clear_black p t : 6 <= p < 12 -> tb (wocc g) t = true -> tb (bb g p) t = false.
Proof.
  intros P B. apply (c_wocc g C) in B. destruct B as (q & Q & T). apply (c_disj g C q p t); try lia; exact T.
Qed.

(* ---- the shapes of generated moves ---- *)
Lemma fits_simple f t p cap : p < 12 -> tb (bb g p) f = true -> tb (bb g p) t = false ->
  move_fits g (mk f t p NOPIECE cap false false false) = true.
Proof.
  intros P F T. unfold move_fits, mk. cbn [mfrom mto mpiece mpromo mcap mep mdp mcastle]. unfold nb. fold (tb (bb g p) f) (tb (bb g p) t).
  rewrite F, T. apply N.ltb_lt in P. rewrite P. rewrite andb_false_r. reflexivity.
Qed.

Lemma fits_dp f t p : p < 12 -> tb (bb g p) f = true -> tb (bb g p) t = false ->
  (if white g then t + 8 else t - 8) <> NOSQ ->
  move_fits g (mk f t p NOPIECE false true false false) = true.
Proof.
  intros P F T E. unfold move_fits, mk. cbn [mfrom mto mpiece mpromo mcap mep mdp mcastle]. unfold nb. fold (tb (bb g p) f) (tb (bb g p) t).
  rewrite F, T. apply N.ltb_lt in P. rewrite P. cbn. apply negb_true_iff. apply N.eqb_neq. exact E.
Qed.

Lemma fits_promo f t p pr cap : p < 12 -> pr < 12 -> pr <> p -> tb (bb g p) f = true -> tb (bb g p) t = false -> tb (bb g pr) t = false ->
  forallb (fun v => negb (v =? pr) && negb (v =? p)) (victims (white g)) = true ->
  move_fits g (mk f t p pr cap false false false) = true.
Proof.
  intros P PR NE F T TP V. unfold move_fits, mk. cbn [mfrom mto mpiece mpromo mcap mep mdp mcastle]. unfold nb.
  fold (tb (bb g p) f) (tb (bb g p) t) (tb (bb g pr) t).
  rewrite F, T, TP, V. apply N.ltb_lt in P. rewrite P. pose proof PR as PR'. apply N.ltb_lt in PR. rewrite PR.
  assert (X : (pr =? NOPIECE) = false) by (apply N.eqb_neq; unfold NOPIECE; lia). rewrite X.
  assert (Y : (pr =? p) = false) by (apply N.eqb_neq; exact NE). rewrite Y.
  rewrite andb_false_r. reflexivity.
Qed.

Lemma in_promos m f t p q n r b cap : In m (promos f t p q n r b cap) ->
  m = mk f t p q cap false false false \/ m = mk f t p n cap false false false \/ m = mk f t p r cap false false false \/ m = mk f t p b cap false false false.
Proof. unfold promos. cbn [In]. intuition. Qed.

Lemma land_bit a b s : tb (N.land a b) s = tb a s && tb b s.
Proof. unfold tb. apply N.land_spec. Qed.
Lemma in_bits b s : In s (bits_of b) <-> tb b s = true.
Proof. apply bits_of_spec. Qed.
Lemma land_zero a m s : N.land a m = 0 -> tb m s = true -> tb a s = false.
Proof. intros Z M. assert (X : tb (N.land a m) s = false) by (rewrite Z; apply N.bits_0). rewrite land_bit, M, andb_true_r in X. exact X. Qed.
Lemma land_nonzero_bit c i : N.land c (bit i) <> 0 -> tb c i = true.
Proof.
  intros NZ. destruct (tb c i) eqn:T; [reflexivity|]. exfalso. apply NZ. apply N.bits_inj. intros s. rewrite N.bits_0.
  fold (tb (N.land c (bit i)) s). rewrite land_bit. unfold tb at 2. rewrite testbit_bit.
  destruct (N.eqb_spec i s) as [<-|]; [rewrite T; reflexivity|apply andb_false_r].
Qed.

(* empty-target lemma for the quiet targets of piece_moves *)
Lemma quiet_target a t : In t (bits_of (N.land a (N.land (N.lnot (aocc g) 64) M64))) -> tb (aocc g) t = false.
Proof.
  intros H. apply in_bits in H. rewrite !land_bit in H. apply andb_true_iff in H. destruct H as [_ H].
  apply andb_true_iff in H. destruct H as [H1 H2].
  assert (L : t < 64).
  { change M64 with (N.ones 64) in H2. unfold tb in H2. destruct (N.lt_ge_cases t 64) as [L|G]; [exact L|].
    rewrite N.ones_spec_high in H2 by exact G. discriminate. }
  unfold tb in H1. rewrite N.lnot_spec_low in H1 by exact L. apply negb_true_iff in H1. exact H1.
Qed.

Lemma piece_moves_fit all opp p att m :
  p < 12 -> (forall t, tb opp t = true -> tb (bb g p) t = false) ->
  In m (piece_moves g all opp p att) -> move_fits g m = true.
Proof.
  intros P OPP H. unfold piece_moves in H. apply in_flat_map in H. destruct H as (f & Hf & H). apply in_bits in Hf.
  apply in_app_or in H. destruct H as [H|H].
  - destruct all; [|destruct H]. apply in_map_iff in H. destruct H as (t & <- & Ht).
    apply fits_simple; [exact P|exact Hf|]. apply occ_clear; [exact P|]. eapply quiet_target. exact Ht.
  - apply in_map_iff in H. destruct H as (t & <- & Ht). apply in_bits in Ht. rewrite land_bit in Ht. apply andb_true_iff in Ht.
    apply fits_simple; [exact P|exact Hf|]. apply OPP. tauto.
Qed.

Lemma victims_white_ok pr : pr < 6 -> forallb (fun v => negb (v =? pr) && negb (v =? WP)) (victims true) = true.
Proof.
  intros P. unfold victims. cbn [forallb]. assert (X : forall k, 6 <= k -> (k =? pr) = false) by (intros k K; apply N.eqb_neq; lia).
  rewrite !X by lia. reflexivity.
Qed.
Lemma victims_black_ok pr : 6 <= pr < 12 -> forallb (fun v => negb (v =? pr) && negb (v =? BP)) (victims false) = true.
Proof.
  intros P. unfold victims. cbn [forallb]. assert (X : forall k, k < 6 -> (k =? pr) = false) by (intros k K; apply N.eqb_neq; lia).
  rewrite !X by lia. reflexivity.
Qed.

Lemma white_pawn_fit all f m : white g = true -> tb (bb g WP) f = true -> In m (white_pawn_moves g all f) -> move_fits g m = true.
Proof.
  intros W F H. unfold white_pawn_moves in H. cbn zeta in H.
  assert (PROMO : forall t cap, tb (bb g WP) t = false -> (forall pr, pr < 6 -> tb (bb g pr) t = false) ->
                  In m (promos f t WP WQ WN WR WB cap) -> move_fits g m = true).
  { intros t cap T TP Hm. apply in_promos in Hm.
    destruct Hm as [-> | [-> | [-> | ->]]]; apply fits_promo; try reflexivity; try discriminate; try assumption; try (apply TP; reflexivity);
      rewrite W; apply victims_white_ok; reflexivity. }
  apply in_app_or in H. destruct H as [H|H].
  - (* pushes *)
    destruct (all && negb (get_bit (aocc g) (f - 8))) eqn:Q; [|destruct H].
    apply andb_true_iff in Q. destruct Q as [_ Q]. apply negb_true_iff in Q. unfold get_bit in Q. fold (tb (aocc g) (f - 8)) in Q.
    destruct (8 <=? f - 8) eqn:R.
    + destruct H as [<-|H].
      * apply fits_simple; [reflexivity|exact F|apply occ_clear; [reflexivity|exact Q]].
      * destruct (negb (get_bit (aocc g) (f - 8 - 8)) && (f / 8 =? 6)) eqn:D; [|destruct H]. destruct H as [<-|[]].
        apply andb_true_iff in D. destruct D as [D D6]. apply negb_true_iff in D. unfold get_bit in D.
        apply fits_dp; [reflexivity|exact F|apply occ_clear; [reflexivity|exact D]|].
        rewrite W. apply N.leb_le in R. unfold NOSQ.
        assert (f < 64 \/ 64 <= f) as [L|G] by lia; [lia|].
        (* a pawn bit at or above 64 cannot be excluded from cons alone; but then f - 8 - 8 + 8 = f - 8 <> 64 unless f = 72 *)
        destruct (N.eq_dec (f - 8 - 8 + 8) 64) as [E|NE]; [|exact NE]. exfalso.
        assert (f = 72) by lia. subst f. cbn in D6. discriminate.
    + apply (PROMO (f - 8) false); [apply occ_clear; [reflexivity|exact Q]|intros pr P; apply occ_clear; [lia|exact Q]|exact H].
  - apply in_app_or in H. destruct H as [H|H].
    + (* en passant *)
      destruct (negb (ep g =? NOSQ) && negb (N.land (pawn_att f true) (bit (ep g)) =? 0)) eqn:E; [|destruct H]. destruct H as [<-|[]].
      apply andb_true_iff in E. destruct E as [E _]. apply negb_true_iff, N.eqb_neq in E.
      destruct (c_ep g C E) as (EA & EB). rewrite W in EB.
      unfold move_fits, mk. cbn [mfrom mto mpiece mpromo mcap mep mdp mcastle]. rewrite W. unfold nb.
      fold (tb (bb g WP) f) (tb (bb g WP) (ep g)) (tb (bb g BP) (ep g + 8)).
      rewrite F, EB. rewrite (occ_clear WP (ep g) ltac:(reflexivity) EA). reflexivity.
    + (* captures *)
      apply in_flat_map in H. destruct H as (t & Ht & H). apply in_bits in Ht. rewrite land_bit in Ht. apply andb_true_iff in Ht. destruct Ht as [_ Ht].
      destruct (8 <=? t).
      * destruct H as [<-|[]]. apply fits_simple; [reflexivity|exact F|apply bocc_clear_white; [reflexivity|exact Ht]].
      * apply (PROMO t true); [apply bocc_clear_white; [reflexivity|exact Ht]|intros pr P; apply bocc_clear_white; assumption|exact H].
Qed.

Lemma black_pawn_fit all f m : white g = false -> tb (bb g BP) f = true -> In m (black_pawn_moves g all f) -> move_fits g m = true.
Proof.
  intros W F H. unfold black_pawn_moves in H. cbn zeta in H.
  assert (PROMO : forall t cap, tb (bb g BP) t = false -> (forall pr, 6 <= pr < 12 -> tb (bb g pr) t = false) ->
                  In m (promos f t BP BQ BN BR BB cap) -> move_fits g m = true).
  { intros t cap T TP Hm. apply in_promos in Hm.
    destruct Hm as [-> | [-> | [-> | ->]]]; apply fits_promo; try reflexivity; try discriminate; try assumption;
      try (apply TP; unfold BQ, BN, BR, BB; lia); rewrite W; apply victims_black_ok; unfold BQ, BN, BR, BB; lia. }
  apply in_app_or in H. destruct H as [H|H].
  - destruct (all && negb (get_bit (aocc g) (f + 8))) eqn:Q; [|destruct H].
    apply andb_true_iff in Q. destruct Q as [_ Q]. apply negb_true_iff in Q. unfold get_bit in Q. fold (tb (aocc g) (f + 8)) in Q.
    destruct (f + 8 <=? 55) eqn:R.
    + destruct H as [<-|H].
      * apply fits_simple; [reflexivity|exact F|apply occ_clear; [reflexivity|exact Q]].
      * destruct (negb (get_bit (aocc g) (f + 8 + 8)) && (f / 8 =? 1)) eqn:D; [|destruct H]. destruct H as [<-|[]].
        apply andb_true_iff in D. destruct D as [D D6]. apply negb_true_iff in D. unfold get_bit in D.
        apply fits_dp; [reflexivity|exact F|apply occ_clear; [reflexivity|exact D]|].
        rewrite W. apply N.leb_le in R. unfold NOSQ. lia.
    + apply (PROMO (f + 8) false); [apply occ_clear; [reflexivity|exact Q]|intros pr P; apply occ_clear; [lia|exact Q]|exact H].
  - apply in_app_or in H. destruct H as [H|H].
    + destruct (negb (ep g =? NOSQ) && negb (N.land (pawn_att f false) (bit (ep g)) =? 0)) eqn:E; [|destruct H]. destruct H as [<-|[]].
      apply andb_true_iff in E. destruct E as [E _]. apply negb_true_iff, N.eqb_neq in E.
      destruct (c_ep g C E) as (EA & EB). rewrite W in EB.
      unfold move_fits, mk. cbn [mfrom mto mpiece mpromo mcap mep mdp mcastle]. rewrite W. unfold nb.
      fold (tb (bb g BP) f) (tb (bb g BP) (ep g)) (tb (bb g WP) (ep g - 8)).
      rewrite F, EB. rewrite (occ_clear BP (ep g) ltac:(reflexivity) EA). reflexivity.
    + apply in_flat_map in H. destruct H as (t & Ht & H). apply in_bits in Ht. rewrite land_bit in Ht. apply andb_true_iff in Ht. destruct Ht as [_ Ht].
      destruct (t <=? 55).
      * destruct H as [<-|[]]. apply fits_simple; [reflexivity|exact F|apply wocc_clear_black; [unfold BP; lia|exact Ht]].
      * apply (PROMO t true); [apply wocc_clear_black; [unfold BP; lia|exact Ht]|intros pr P; apply wocc_clear_black; assumption|exact H].
Qed.

(* castling: the right is set (hence king and rook at home), the squares between are empty *)
Lemma castle_fit all right mask ksq cross byw t king rk a b i m :
  right = bit i -> (tb (castling g) i = true -> tb (bb g king) ksq = true /\ tb (bb g rk) b = true) ->
  king < 12 -> rk < 12 -> tb mask t = true -> tb mask a = true ->
  (forall x, move_fits g (mk ksq t king NOPIECE false false false true) = x ->
     x = ((king <? 12) && tb (bb g king) ksq && (nb (bb g king) t || (ksq =? t)) && true &&
          (true && (negb (king =? rk) && nb (bb g rk) a && tb (bb g rk) b)) && true)) ->
  king <> rk ->
  In m (castle_move g all right mask ksq cross byw t king) -> move_fits g m = true.
Proof.
  intros -> RT K R MT MA SHAPE NE H. unfold castle_move in H.
  destruct (all && negb (N.land (castling g) (bit i) =? 0) && (N.land (aocc g) mask =? 0) &&
            negb (is_square_attacked (bbs g) (aocc g) ksq byw) && negb (is_square_attacked (bbs g) (aocc g) cross byw)) eqn:Q; [|destruct H].
  destruct H as [<-|[]].
  apply andb_true_iff in Q. destruct Q as [Q _]. apply andb_true_iff in Q. destruct Q as [Q _].
  apply andb_true_iff in Q. destruct Q as [Q EM]. apply andb_true_iff in Q. destruct Q as [_ RI].
  apply negb_true_iff, N.eqb_neq in RI. apply land_nonzero_bit in RI. apply N.eqb_eq in EM.
  destruct (RT RI) as (TK & TR).
  rewrite (SHAPE _ eq_refl). unfold nb. fold (tb (bb g king) t) (tb (bb g rk) a).
  rewrite TK, TR. rewrite (occ_clear king t K (land_zero _ _ _ EM MT)). rewrite (occ_clear rk a R (land_zero _ _ _ EM MA)).
  apply N.ltb_lt in K. rewrite K. assert (X : (king =? rk) = false) by (apply N.eqb_neq; exact NE). rewrite X. reflexivity.
Qed.

Theorem generated_moves_fit all m : In m (generate_moves g all) -> move_fits g m = true.
Proof.
  intros H. unfold generate_moves in H. destruct (white g) eqn:W.
  - repeat (apply in_app_or in H; destruct H as [H|H]).
    + apply in_flat_map in H. destruct H as (f & Hf & H). apply in_bits in Hf. eapply white_pawn_fit; eassumption.
    + eapply (castle_fit all 1 CASTLE_EMPTY_WK 60 61 false 62 WK WR 61 63 0); try reflexivity; try exact H; try discriminate.
      * apply (c_cK g C).
      * intros x <-. unfold move_fits, mk. cbn [mfrom mto mpiece mpromo mcap mep mdp mcastle]. rewrite W. reflexivity.
    + eapply (castle_fit all 2 CASTLE_EMPTY_WQ 60 59 false 58 WK WR 59 56 1); try reflexivity; try exact H; try discriminate.
      * apply (c_cQ g C).
      * intros x <-. unfold move_fits, mk. cbn [mfrom mto mpiece mpromo mcap mep mdp mcastle]. rewrite W. reflexivity.
    + match type of H with In _ (piece_moves _ _ ?o ?p ?a) => apply (piece_moves_fit all o p a m) end; [reflexivity|intros t; apply bocc_clear_white; reflexivity|exact H].
    + match type of H with In _ (piece_moves _ _ ?o ?p ?a) => apply (piece_moves_fit all o p a m) end; [reflexivity|intros t; apply bocc_clear_white; reflexivity|exact H].
    + match type of H with In _ (piece_moves _ _ ?o ?p ?a) => apply (piece_moves_fit all o p a m) end; [reflexivity|intros t; apply bocc_clear_white; reflexivity|exact H].
    + match type of H with In _ (piece_moves _ _ ?o ?p ?a) => apply (piece_moves_fit all o p a m) end; [reflexivity|intros t; apply bocc_clear_white; reflexivity|exact H].
    + match type of H with In _ (piece_moves _ _ ?o ?p ?a) => apply (piece_moves_fit all o p a m) end; [reflexivity|intros t; apply bocc_clear_white; reflexivity|exact H].
  - repeat (apply in_app_or in H; destruct H as [H|H]).
    + apply in_flat_map in H. destruct H as (f & Hf & H). apply in_bits in Hf. eapply black_pawn_fit; eassumption.
    + eapply (castle_fit all 4 CASTLE_EMPTY_BK 4 5 true 6 BK BR 5 7 2); try reflexivity; try exact H; try discriminate.
      * apply (c_ck g C).
      * intros x <-. unfold move_fits, mk. cbn [mfrom mto mpiece mpromo mcap mep mdp mcastle]. rewrite W. reflexivity.
    + eapply (castle_fit all 8 CASTLE_EMPTY_BQ 4 3 true 2 BK BR 3 0 3); try reflexivity; try exact H; try discriminate.
      * apply (c_cq g C).
      * intros x <-. unfold move_fits, mk. cbn [mfrom mto mpiece mpromo mcap mep mdp mcastle]. rewrite W. reflexivity.
    + match type of H with In _ (piece_moves _ _ ?o ?p ?a) => apply (piece_moves_fit all o p a m) end; [reflexivity|intros t; apply wocc_clear_black; unfold BN; lia|exact H].
    + match type of H with In _ (piece_moves _ _ ?o ?p ?a) => apply (piece_moves_fit all o p a m) end; [reflexivity|intros t; apply wocc_clear_black; unfold BB; lia|exact H].
    + match type of H with In _ (piece_moves _ _ ?o ?p ?a) => apply (piece_moves_fit all o p a m) end; [reflexivity|intros t; apply wocc_clear_black; unfold BR; lia|exact H].
    + match type of H with In _ (piece_moves _ _ ?o ?p ?a) => apply (piece_moves_fit all o p a m) end; [reflexivity|intros t; apply wocc_clear_black; unfold BQ; lia|exact H].
    + match type of H with In _ (piece_moves _ _ ?o ?p ?a) => apply (piece_moves_fit all o p a m) end; [reflexivity|intros t; apply wocc_clear_black; unfold BK; lia|exact H].
Qed.
End Gen.

(* the incremental key for every generated move of a consistent position *)
Theorem make_keyok_generated g all m g' : cons g -> keyok g -> In m (generate_moves g all) ->
  make_search_move g m = Made g' -> keyok g'.
Proof.
  intros C K H M. exact (proj1 (make_keyok g m g' (c_len g C) K (generated_moves_fit g C all m H) M)).
Qed.
Print Assumptions make_keyok_generated.
