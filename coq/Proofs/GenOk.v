(* C02 (generator side): every move generate_moves produces for a consistent position is well-formed for make_search_move
   (ConsProofs.move_ok), provided it does not capture a king (which no move does when the side not to move is not in check). *)
From Coq Require Import NArith ZArith List Bool Lia.
From JV Require Import Gen.Consts Model.Bits Model.Chess Model.Abs Proofs.BitboardProofs Proofs.MoveGenProofs Proofs.ZobristProofs Proofs.KeyProofs Proofs.GenProofs Proofs.ConsProofs.
Import ListNotations.
Local Open Scope N_scope.

Definition oppK (w : bool) : N := if w then BK else WK.
Definition own (w : bool) (p : N) : Prop := (p <? 6) = w /\ p < 12.

Section GenOk.
Variable g : game.
Hypothesis C : cons g.
Let w := white g.

Lemma board_in_aocc p s : p < 12 -> tb (bb g p) s = true -> tb (aocc g) s = true.
Proof.
  intros P T. destruct (tb (aocc g) s) eqn:A; [reflexivity|]. rewrite (occ_clear g C p s P A) in T. discriminate.
Qed.

Lemma opp_victim t : tb (if w then bocc g else wocc g) t = true -> tb (bb g (oppK w)) t = false ->
  exists v, In v (victims w) /\ tb (bb g v) t = true.
Proof.
  intros O NK. unfold w in *. destruct (white g).
  - apply (c_bocc g C) in O. destruct O as (q & Q & T). exists q. split; [|exact T].
    unfold victims. cbn [In]. unfold oppK, BK in NK.
    destruct (N.eq_dec q 6) as [->|]; [auto|]. destruct (N.eq_dec q 7) as [->|]; [auto|]. destruct (N.eq_dec q 8) as [->|]; [auto|].
    destruct (N.eq_dec q 9) as [->|]; [auto 6|]. destruct (N.eq_dec q 10) as [->|]; [auto 7|].
    assert (q = 11) by lia. subst q. congruence.
  - apply (c_wocc g C) in O. destruct O as (q & Q & T). exists q. split; [|exact T].
    unfold victims. cbn [In]. unfold oppK, WK in NK.
    destruct (N.eq_dec q 0) as [->|]; [auto|]. destruct (N.eq_dec q 1) as [->|]; [auto|]. destruct (N.eq_dec q 2) as [->|]; [auto|].
    destruct (N.eq_dec q 3) as [->|]; [auto 6|]. destruct (N.eq_dec q 4) as [->|]; [auto 7|].
    assert (q = 5) by lia. subst q. congruence.
Qed.

Lemma opp_not_own p t : own w p -> tb (if w then bocc g else wocc g) t = true -> tb (bb g p) t = false.
Proof.
  intros (O & P) T. unfold w in *. destruct (white g).
  - apply (bocc_clear_white g C); [apply N.ltb_lt; exact O|exact T].
  - apply (wocc_clear_black g C); [apply N.ltb_ge in O; lia|exact T].
Qed.

Ltac mkok := constructor; cbn [mfrom mto mpiece mpromo mcap mep mdp mcastle mk]; try discriminate.

Lemma ok_quiet f t p : own w p -> tb (bb g p) f = true -> tb (aocc g) t = false -> move_ok g (mk f t p NOPIECE false false false false).
Proof.
  intros (O & P) F A. mkok; try assumption.
  - intros E. subst t. rewrite (board_in_aocc p f P F) in A. discriminate.
  - intros _. exact A.
  - intros X. exfalso. apply X. reflexivity.
Qed.

Lemma ok_cap f t p : own w p -> tb (bb g p) f = true -> tb (if w then bocc g else wocc g) t = true -> tb (bb g (oppK w)) t = false ->
  move_ok g (mk f t p NOPIECE true false false false).
Proof.
  intros OW F A NK. pose proof OW as (O & P). mkok; try assumption.
  - intros E. subst t. rewrite (opp_not_own p f OW A) in F. discriminate.
  - intros _ _. apply opp_victim; assumption.
  - intros X. exfalso. apply X. reflexivity.
Qed.

Lemma ok_promo f t p pr cap : own w p -> own w pr -> pr <> p -> tb (bb g p) f = true ->
  (cap = true -> tb (if w then bocc g else wocc g) t = true /\ tb (bb g (oppK w)) t = false) ->
  (cap = false -> tb (aocc g) t = false) ->
  move_ok g (mk f t p pr cap false false false).
Proof.
  intros OW (OP & PP) NE F A1 A2. pose proof OW as (O & P). mkok; try assumption.
  - intros E. subst t. destruct cap.
    + destruct (A1 eq_refl) as (A & _). rewrite (opp_not_own p f OW A) in F. discriminate.
    + rewrite (board_in_aocc p f P F) in A2. discriminate A2. reflexivity.
  - intros X _. destruct (A1 X). apply opp_victim; assumption.
  - intros _. repeat split; assumption.
Qed.

Definition nkc (m : move) : Prop := mcap m = true -> mep m = false -> tb (bb g (oppK w)) (mto m) = false.

Lemma piece_moves_ok all p att m : own w p ->
  In m (piece_moves g all (if w then bocc g else wocc g) p att) -> nkc m -> move_ok g m.
Proof.
  intros OW H NK. unfold piece_moves in H. apply in_flat_map in H. destruct H as (f & Hf & H). apply in_bits in Hf.
  apply in_app_or in H. destruct H as [H|H].
  - destruct all; [|destruct H]. apply in_map_iff in H. destruct H as (t & <- & Ht).
    apply ok_quiet; [exact OW|exact Hf|]. eapply quiet_target. exact Ht.
  - apply in_map_iff in H. destruct H as (t & <- & Ht). apply in_bits in Ht. rewrite land_bit in Ht. apply andb_true_iff in Ht.
    apply ok_cap; [exact OW|exact Hf|tauto|]. apply (NK eq_refl eq_refl).
Qed.

Lemma white_pawn_ok all f m : w = true -> tb (bb g WP) f = true -> In m (white_pawn_moves g all f) -> nkc m -> move_ok g m.
Proof.
  intros W F H NK. unfold white_pawn_moves in H. cbn zeta in H.
  assert (OWP : own w WP) by (rewrite W; split; reflexivity).
  assert (PROMO : forall t cap, (cap = true -> tb (bocc g) t = true) -> (cap = false -> tb (aocc g) t = false) ->
                  In m (promos f t WP WQ WN WR WB cap) -> move_ok g m).
  { intros t cap A1 A2 Hm. apply in_promos in Hm.
    destruct Hm as [-> | [-> | [-> | ->]]]; (apply ok_promo; [exact OWP|rewrite W; split; reflexivity|discriminate|exact F| |exact A2]);
      intros X; (split; [rewrite W; exact (A1 X)|]); subst cap; apply (NK eq_refl eq_refl). }
  apply in_app_or in H. destruct H as [H|H].
  - destruct (all && negb (get_bit (aocc g) (f - 8))) eqn:Q; [|destruct H].
    apply andb_true_iff in Q. destruct Q as [_ Q]. apply negb_true_iff in Q. unfold get_bit in Q. fold (tb (aocc g) (f - 8)) in Q.
    destruct (8 <=? f - 8) eqn:R.
    + destruct H as [<-|H]; [apply ok_quiet; assumption|].
      destruct (negb (get_bit (aocc g) (f - 8 - 8)) && (f / 8 =? 6)) eqn:D; [|destruct H]. destruct H as [<-|[]].
      apply andb_true_iff in D. destruct D as [D D6]. apply negb_true_iff in D. unfold get_bit in D. fold (tb (aocc g) (f - 8 - 8)) in D.
      apply N.leb_le in R. apply N.eqb_eq in D6.
      assert (F48 : 48 <= f < 56). { pose proof (N.div_mod f 8 ltac:(lia)) as X. rewrite D6 in X. pose proof (N.mod_lt f 8 ltac:(lia)) as Y. revert X Y. generalize (f mod 8). clear. intros r X Y. lia. }
      constructor; cbn [mfrom mto mpiece mpromo mcap mep mdp mcastle mk]; try discriminate; try (destruct OWP; assumption).
      * lia.
      * intros _. exact D.
      * intros X. exfalso. apply X. reflexivity.
      * intros _. fold w. rewrite W. unfold ownP, behind. repeat split; try reflexivity.
        -- replace (f - 8 - 8 + 8) with (f - 8) by lia. exact Q.
        -- lia.
    + apply (PROMO (f - 8) false); [discriminate|intros _; exact Q|exact H].
  - apply in_app_or in H. destruct H as [H|H].
    + destruct (negb (ep g =? NOSQ) && negb (N.land (pawn_att f true) (bit (ep g)) =? 0)) eqn:E; [|destruct H]. destruct H as [<-|[]].
      apply andb_true_iff in E. destruct E as [E _]. apply negb_true_iff, N.eqb_neq in E.
      destruct (c_ep g C E) as (EA & EB). fold w in EB. rewrite W in EB.
      constructor; cbn [mfrom mto mpiece mpromo mcap mep mdp mcastle mk]; try discriminate; try (destruct OWP; assumption).
      * intros X. subst f. rewrite (board_in_aocc WP (ep g) ltac:(reflexivity) F) in EA. discriminate.
      * intros _. fold w. rewrite W. unfold oppP, behind, ownP. repeat split; try reflexivity; assumption.
      * intros X. exfalso. apply X. reflexivity.
    + apply in_flat_map in H. destruct H as (t & Ht & H). apply in_bits in Ht. rewrite land_bit in Ht. apply andb_true_iff in Ht. destruct Ht as [_ Ht].
      destruct (8 <=? t).
      * destruct H as [<-|[]]. apply ok_cap; [exact OWP|exact F|rewrite W; exact Ht|apply (NK eq_refl eq_refl)].
      * apply (PROMO t true); [intros _; exact Ht|discriminate|exact H].
Qed.

Lemma black_pawn_ok all f m : w = false -> tb (bb g BP) f = true -> In m (black_pawn_moves g all f) -> nkc m -> move_ok g m.
Proof.
  intros W F H NK. unfold black_pawn_moves in H. cbn zeta in H.
  assert (OWP : own w BP) by (rewrite W; split; reflexivity).
  assert (PROMO : forall t cap, (cap = true -> tb (wocc g) t = true) -> (cap = false -> tb (aocc g) t = false) ->
                  In m (promos f t BP BQ BN BR BB cap) -> move_ok g m).
  { intros t cap A1 A2 Hm. apply in_promos in Hm.
    destruct Hm as [-> | [-> | [-> | ->]]]; (apply ok_promo; [exact OWP|rewrite W; split; reflexivity|discriminate|exact F| |exact A2]);
      intros X; (split; [rewrite W; exact (A1 X)|]); subst cap; apply (NK eq_refl eq_refl). }
  apply in_app_or in H. destruct H as [H|H].
  - destruct (all && negb (get_bit (aocc g) (f + 8))) eqn:Q; [|destruct H].
    apply andb_true_iff in Q. destruct Q as [_ Q]. apply negb_true_iff in Q. unfold get_bit in Q. fold (tb (aocc g) (f + 8)) in Q.
    destruct (f + 8 <=? 55) eqn:R.
    + destruct H as [<-|H]; [apply ok_quiet; assumption|].
      destruct (negb (get_bit (aocc g) (f + 8 + 8)) && (f / 8 =? 1)) eqn:D; [|destruct H]. destruct H as [<-|[]].
      apply andb_true_iff in D. destruct D as [D D6]. apply negb_true_iff in D. unfold get_bit in D. fold (tb (aocc g) (f + 8 + 8)) in D.
      constructor; cbn [mfrom mto mpiece mpromo mcap mep mdp mcastle mk]; try discriminate; try (destruct OWP; assumption).
      * lia.
      * intros _. exact D.
      * intros X. exfalso. apply X. reflexivity.
      * intros _. fold w. rewrite W. unfold ownP, behind. repeat split; try reflexivity.
        -- replace (f + 8 + 8 - 8) with (f + 8) by lia. exact Q.
        -- lia.
    + apply (PROMO (f + 8) false); [discriminate|intros _; exact Q|exact H].
  - apply in_app_or in H. destruct H as [H|H].
    + destruct (negb (ep g =? NOSQ) && negb (N.land (pawn_att f false) (bit (ep g)) =? 0)) eqn:E; [|destruct H]. destruct H as [<-|[]].
      apply andb_true_iff in E. destruct E as [E _]. apply negb_true_iff, N.eqb_neq in E.
      destruct (c_ep g C E) as (EA & EB). fold w in EB. rewrite W in EB.
      constructor; cbn [mfrom mto mpiece mpromo mcap mep mdp mcastle mk]; try discriminate; try (destruct OWP; assumption).
      * intros X. subst f. rewrite (board_in_aocc BP (ep g) ltac:(reflexivity) F) in EA. discriminate.
      * intros _. fold w. rewrite W. unfold oppP, behind, ownP. repeat split; try reflexivity; assumption.
      * intros X. exfalso. apply X. reflexivity.
    + apply in_flat_map in H. destruct H as (t & Ht & H). apply in_bits in Ht. rewrite land_bit in Ht. apply andb_true_iff in Ht. destruct Ht as [_ Ht].
      destruct (t <=? 55).
      * destruct H as [<-|[]]. apply ok_cap; [exact OWP|exact F|rewrite W; exact Ht|apply (NK eq_refl eq_refl)].
      * apply (PROMO t true); [intros _; exact Ht|discriminate|exact H].
Qed.

Lemma castle_ok all right mask ksq cross byw t king i m :
  right = bit i -> In m (castle_move g all right mask ksq cross byw t king) ->
  (tb (castling g) i = true -> N.land (aocc g) mask = 0 -> move_ok g (mk ksq t king NOPIECE false false false true)) -> move_ok g m.
Proof.
  intros -> H OK. unfold castle_move in H.
  destruct (all && negb (N.land (castling g) (bit i) =? 0) && (N.land (aocc g) mask =? 0) &&
            negb (is_square_attacked (bbs g) (aocc g) ksq byw) && negb (is_square_attacked (bbs g) (aocc g) cross byw)) eqn:Q; [|destruct H].
  destruct H as [<-|[]].
  apply andb_true_iff in Q. destruct Q as [Q _]. apply andb_true_iff in Q. destruct Q as [Q _].
  apply andb_true_iff in Q. destruct Q as [Q EM]. apply andb_true_iff in Q. destruct Q as [_ RI].
  apply negb_true_iff, N.eqb_neq in RI. apply land_nonzero_bit in RI. apply N.eqb_eq in EM. apply OK; assumption.
Qed.

Lemma castle_shape ksq t king : own w king ->
  tb (bb g king) ksq = true -> tb (aocc g) t = false -> ksq = (if w then 60 else 4) ->
  ((w = true /\ king = WK /\ ((t = 62 /\ tb (aocc g) 61 = false /\ tb (bb g WR) 63 = true) \/
                              (t = 58 /\ tb (aocc g) 59 = false /\ tb (bb g WR) 56 = true))) \/
   (w = false /\ king = BK /\ ((t = 6 /\ tb (aocc g) 5 = false /\ tb (bb g BR) 7 = true) \/
                               (t = 2 /\ tb (aocc g) 3 = false /\ tb (bb g BR) 0 = true)))) ->
  move_ok g (mk ksq t king NOPIECE false false false true).
Proof.
  intros (O & P) TK AT KS SH. constructor; cbn [mfrom mto mpiece mpromo mcap mep mdp mcastle mk]; try discriminate; try assumption.
  - intros E. subst t. rewrite (board_in_aocc king ksq P TK) in AT. discriminate.
  - intros _. exact AT.
  - intros X. exfalso. apply X. reflexivity.
  - intros _. repeat split; try reflexivity. exact SH.
  - intros _. exact KS.
Qed.

Theorem generated_moves_ok all m : In m (generate_moves g all) -> nkc m -> move_ok g m.
Proof.
  intros H NK. unfold generate_moves in H. fold w in H. destruct w eqn:W.
  - repeat (apply in_app_or in H; destruct H as [H|H]).
    + apply in_flat_map in H. destruct H as (f & Hf & H). apply in_bits in Hf. eapply white_pawn_ok; eassumption.
    + apply (castle_ok all 1 CASTLE_EMPTY_WK 60 61 false 62 WK 0 m eq_refl H). intros RT EM.
      destruct (c_cK g C RT) as (TK & TR).
      apply castle_shape; [rewrite W; split; reflexivity|exact TK|apply (land_zero _ _ _ EM); reflexivity|rewrite W; reflexivity|].
      left. repeat split; try assumption. left. repeat split; [apply (land_zero _ _ _ EM); reflexivity|exact TR].
    + apply (castle_ok all 2 CASTLE_EMPTY_WQ 60 59 false 58 WK 1 m eq_refl H). intros RT EM.
      destruct (c_cQ g C RT) as (TK & TR).
      apply castle_shape; [rewrite W; split; reflexivity|exact TK|apply (land_zero _ _ _ EM); reflexivity|rewrite W; reflexivity|].
      left. repeat split; try assumption. right. repeat split; [apply (land_zero _ _ _ EM); reflexivity|exact TR].
    + apply (piece_moves_ok all WN knight_att m); [rewrite W; split; reflexivity|rewrite W; exact H|exact NK].
    + apply (piece_moves_ok all WB (fun f => bishop_att f (aocc g)) m); [rewrite W; split; reflexivity|rewrite W; exact H|exact NK].
    + apply (piece_moves_ok all WR (fun f => rook_att f (aocc g)) m); [rewrite W; split; reflexivity|rewrite W; exact H|exact NK].
    + apply (piece_moves_ok all WQ (fun f => queen_att f (aocc g)) m); [rewrite W; split; reflexivity|rewrite W; exact H|exact NK].
    + apply (piece_moves_ok all WK king_att m); [rewrite W; split; reflexivity|rewrite W; exact H|exact NK].
  - repeat (apply in_app_or in H; destruct H as [H|H]).
    + apply in_flat_map in H. destruct H as (f & Hf & H). apply in_bits in Hf. eapply black_pawn_ok; eassumption.
    + apply (castle_ok all 4 CASTLE_EMPTY_BK 4 5 true 6 BK 2 m eq_refl H). intros RT EM.
      destruct (c_ck g C RT) as (TK & TR).
      apply castle_shape; [rewrite W; split; reflexivity|exact TK|apply (land_zero _ _ _ EM); reflexivity|rewrite W; reflexivity|].
      right. repeat split; try assumption. left. repeat split; [apply (land_zero _ _ _ EM); reflexivity|exact TR].
    + apply (castle_ok all 8 CASTLE_EMPTY_BQ 4 3 true 2 BK 3 m eq_refl H). intros RT EM.
      destruct (c_cq g C RT) as (TK & TR).
      apply castle_shape; [rewrite W; split; reflexivity|exact TK|apply (land_zero _ _ _ EM); reflexivity|rewrite W; reflexivity|].
      right. repeat split; try assumption. right. repeat split; [apply (land_zero _ _ _ EM); reflexivity|exact TR].
    + apply (piece_moves_ok all BN knight_att m); [rewrite W; split; reflexivity|rewrite W; exact H|exact NK].
    + apply (piece_moves_ok all BB (fun f => bishop_att f (aocc g)) m); [rewrite W; split; reflexivity|rewrite W; exact H|exact NK].
    + apply (piece_moves_ok all BR (fun f => rook_att f (aocc g)) m); [rewrite W; split; reflexivity|rewrite W; exact H|exact NK].
    + apply (piece_moves_ok all BQ (fun f => queen_att f (aocc g)) m); [rewrite W; split; reflexivity|rewrite W; exact H|exact NK].
    + apply (piece_moves_ok all BK king_att m); [rewrite W; split; reflexivity|rewrite W; exact H|exact NK].
Qed.
End GenOk.
Lemma nkc_b_spec g m : nkc_b g m = true -> nkc g m.
Proof.
  unfold nkc_b, nkc, oppK. intros H CAP EP. rewrite CAP, EP in H. cbn [negb andb] in H. apply negb_true_iff in H. exact H.
Qed.
Print Assumptions generated_moves_ok.
