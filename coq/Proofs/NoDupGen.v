(* C01, no duplicates: the list generate_moves produces never contains the same move record twice (for any position whatever:
   the argument is about the shape of the generator only). *)
From Coq Require Import NArith List Bool Lia.
From JV Require Import Gen.Consts Model.Bits Model.Chess Proofs.BitboardProofs.
Import ListNotations.
Local Open Scope N_scope.

Lemma NoDup_app' {A} (l1 l2 : list A) : NoDup l1 -> NoDup l2 -> (forall x, In x l1 -> In x l2 -> False) -> NoDup (l1 ++ l2).
Proof.
  induction l1 as [|a l1 IH]; intros N1 N2 D; [exact N2|]. cbn [app]. inversion N1 as [|? ? NA N1']; subst. constructor.
  - intros H. apply in_app_or in H. destruct H as [H|H]; [exact (NA H)|exact (D a (or_introl eq_refl) H)].
  - apply IH; [exact N1'|exact N2|]. intros x H1 H2. exact (D x (or_intror H1) H2).
Qed.

Lemma NoDup_flat_map' {A B} (F : A -> list B) (l : list A) : NoDup l -> (forall a, In a l -> NoDup (F a)) ->
  (forall a b x, In a l -> In b l -> In x (F a) -> In x (F b) -> a = b) -> NoDup (flat_map F l).
Proof.
  induction l as [|a l IH]; intros N1 NF D; [constructor|]. cbn [flat_map]. inversion N1 as [|? ? NA N1']; subst.
  apply NoDup_app'.
  - apply NF. left. reflexivity.
  - apply IH; [exact N1'|intros b Hb; apply NF; right; exact Hb|]. intros b c x Hb Hc. apply D; right; assumption.
  - intros x H1 H2. apply in_flat_map in H2. destruct H2 as (b & Hb & Hx).
    assert (E : a = b) by (apply (D a b x); [left; reflexivity|right; exact Hb|exact H1|exact Hx]). subst b. exact (NA Hb).
Qed.

Lemma NoDup_map' {A B} (f : A -> B) (l : list A) : (forall a b, f a = f b -> a = b) -> NoDup l -> NoDup (map f l).
Proof.
  intros I. induction l as [|a l IH]; intros N1; [constructor|]. inversion N1 as [|? ? NA N1']; subst. cbn [map]. constructor; [|apply IH; exact N1'].
  intros H. apply in_map_iff in H. destruct H as (b & E & Hb). apply I in E. subst b. exact (NA Hb).
Qed.

Lemma NoDup_promos f t p q n r b cap : q <> n -> q <> r -> q <> b -> n <> r -> n <> b -> r <> b -> NoDup (promos f t p q n r b cap).
Proof.
  intros. unfold promos. repeat constructor; cbn [In]; intros H'; repeat (destruct H' as [H'|H']; [injection H' as H'; congruence|]); exact H'.
Qed.

Lemma in_promos' m f t p q n r b cap : In m (promos f t p q n r b cap) ->
  mfrom m = f /\ mto m = t /\ mpiece m = p /\ mcap m = cap /\ mdp m = false /\ mep m = false /\ mcastle m = false.
Proof. unfold promos. cbn [In]. intros [<-|[<-|[<-|[<-|[]]]]]; repeat split. Qed.

Section G.
Variable g : game.

(* ---- pieces ---- *)
Lemma pm_tag all opp p att m : In m (piece_moves g all opp p att) -> mpiece m = p /\ mcastle m = false.
Proof.
  unfold piece_moves. intros H. apply in_flat_map in H. destruct H as (f & _ & H). apply in_app_or in H. destruct H as [H|H].
  - destruct all; [|destruct H]. apply in_map_iff in H. destruct H as (t & <- & _). split; reflexivity.
  - apply in_map_iff in H. destruct H as (t & <- & _). split; reflexivity.
Qed.

Lemma NoDup_piece_moves all opp p att : NoDup (piece_moves g all opp p att).
Proof.
  unfold piece_moves. apply NoDup_flat_map'; [apply bits_of_nodup| |].
  - intros f _. apply NoDup_app'.
    + destruct all; [|constructor]. apply NoDup_map'; [intros a b E; injection E as E; exact E|apply bits_of_nodup].
    + apply NoDup_map'; [intros a b E; injection E as E; exact E|apply bits_of_nodup].
    + intros x H1 H2. destruct all; [|destruct H1]. apply in_map_iff in H1. destruct H1 as (t1 & <- & _).
      apply in_map_iff in H2. destruct H2 as (t2 & E & _). discriminate E.
  - intros a b x _ _ H1 H2.
    assert (FA : forall c, In x ((if all then map (fun t => mk c t p NOPIECE false false false false) (bits_of (N.land (att c) (N.land (N.lnot (aocc g) 64) M64))) else []) ++
                                 map (fun t => mk c t p NOPIECE true false false false) (bits_of (N.land (att c) opp))) -> mfrom x = c).
    { intros c H. apply in_app_or in H. destruct H as [H|H]; [destruct all; [|destruct H]|]; apply in_map_iff in H; destruct H as (t & <- & _); reflexivity. }
    rewrite <- (FA a H1), <- (FA b H2). reflexivity.
Qed.

(* ---- castling ---- *)
Lemma castle_tag all right mask ksq cross bw t king m : In m (castle_move g all right mask ksq cross bw t king) ->
  m = mk ksq t king NOPIECE false false false true.
Proof. unfold castle_move. destruct (_ && _); [|intros []]. intros [<-|[]]. reflexivity. Qed.
Lemma NoDup_castle all right mask ksq cross bw t king : NoDup (castle_move g all right mask ksq cross bw t king).
Proof. unfold castle_move. destruct (_ && _); [constructor; [intros []|constructor]|constructor]. Qed.

(* ---- pawns ---- *)
Lemma wp_tag all f m : In m (white_pawn_moves g all f) -> mpiece m = WP /\ mfrom m = f /\ mcastle m = false.
Proof.
  unfold white_pawn_moves. cbn zeta. intros H. apply in_app_or in H. destruct H as [H|H]; [|apply in_app_or in H; destruct H as [H|H]].
  - destruct (all && _); [|destruct H]. destruct (8 <=? f - 8).
    + destruct H as [<-|H]; [repeat split|]. destruct (_ && _); [|destruct H]. destruct H as [<-|[]]. repeat split.
    + apply in_promos' in H. tauto.
  - destruct (_ && _); [|destruct H]. destruct H as [<-|[]]. repeat split.
  - apply in_flat_map in H. destruct H as (t & _ & H). destruct (8 <=? t); [destruct H as [<-|[]]; repeat split|apply in_promos' in H; tauto].
Qed.
Lemma bp_tag all f m : In m (black_pawn_moves g all f) -> mpiece m = BP /\ mfrom m = f /\ mcastle m = false.
Proof.
  unfold black_pawn_moves. cbn zeta. intros H. apply in_app_or in H. destruct H as [H|H]; [|apply in_app_or in H; destruct H as [H|H]].
  - destruct (all && _); [|destruct H]. destruct (f + 8 <=? 55).
    + destruct H as [<-|H]; [repeat split|]. destruct (_ && _); [|destruct H]. destruct H as [<-|[]]. repeat split.
    + apply in_promos' in H. tauto.
  - destruct (_ && _); [|destruct H]. destruct H as [<-|[]]. repeat split.
  - apply in_flat_map in H. destruct H as (t & _ & H). destruct (t <=? 55); [destruct H as [<-|[]]; repeat split|apply in_promos' in H; tauto].
Qed.

Lemma NoDup_wp all f : NoDup (white_pawn_moves g all f).
Proof.
  unfold white_pawn_moves. cbn zeta. apply NoDup_app'; [| apply NoDup_app' |].
  - destruct (all && _); [|constructor]. destruct (8 <=? f - 8).
    + destruct (_ && _); [constructor; [cbn [In]; intros [E|[]]; discriminate E|constructor; [intros []|constructor]]|constructor; [intros []|constructor]].
    + apply NoDup_promos; discriminate.
  - destruct (_ && _); [constructor; [intros []|constructor]|constructor].
  - apply NoDup_flat_map'; [apply bits_of_nodup| |].
    + intros t _. destruct (8 <=? t); [constructor; [intros []|constructor]|apply NoDup_promos; discriminate].
    + intros a b x _ _ H1 H2.
      assert (FA : forall c, In x (if 8 <=? c then [mk f c WP NOPIECE true false false false] else promos f c WP WQ WN WR WB true) -> mto x = c).
      { intros c H. destruct (8 <=? c); [destruct H as [<-|[]]; reflexivity|apply in_promos' in H; tauto]. }
      rewrite <- (FA a H1), <- (FA b H2). reflexivity.
  - intros x H1 H2. destruct (negb (ep g =? NOSQ) && _); [|destruct H1]. destruct H1 as [<-|[]].
    apply in_flat_map in H2. destruct H2 as (t & _ & H). destruct (8 <=? t); [destruct H as [E|[]]; discriminate E|apply in_promos' in H; cbn in H; intuition discriminate].
  - intros x H1 H2.
    assert (Q : mcap x = false).
    { destruct (all && _); [|destruct H1]. destruct (8 <=? f - 8).
      - destruct H1 as [<-|H1]; [reflexivity|]. destruct (_ && _); [|destruct H1]. destruct H1 as [<-|[]]. reflexivity.
      - apply in_promos' in H1. tauto. }
    apply in_app_or in H2. destruct H2 as [H2|H2].
    + destruct (negb (ep g =? NOSQ) && _); [|destruct H2]. destruct H2 as [<-|[]]. discriminate Q.
    + apply in_flat_map in H2. destruct H2 as (t & _ & H). destruct (8 <=? t); [destruct H as [<-|[]]; discriminate Q|apply in_promos' in H; intuition congruence].
Qed.

Lemma NoDup_bp all f : NoDup (black_pawn_moves g all f).
Proof.
  unfold black_pawn_moves. cbn zeta. apply NoDup_app'; [| apply NoDup_app' |].
  - destruct (all && _); [|constructor]. destruct (f + 8 <=? 55).
    + destruct (_ && _); [constructor; [cbn [In]; intros [E|[]]; discriminate E|constructor; [intros []|constructor]]|constructor; [intros []|constructor]].
    + apply NoDup_promos; discriminate.
  - destruct (_ && _); [constructor; [intros []|constructor]|constructor].
  - apply NoDup_flat_map'; [apply bits_of_nodup| |].
    + intros t _. destruct (t <=? 55); [constructor; [intros []|constructor]|apply NoDup_promos; discriminate].
    + intros a b x _ _ H1 H2.
      assert (FA : forall c, In x (if c <=? 55 then [mk f c BP NOPIECE true false false false] else promos f c BP BQ BN BR BB true) -> mto x = c).
      { intros c H. destruct (c <=? 55); [destruct H as [<-|[]]; reflexivity|apply in_promos' in H; tauto]. }
      rewrite <- (FA a H1), <- (FA b H2). reflexivity.
  - intros x H1 H2. destruct (negb (ep g =? NOSQ) && _); [|destruct H1]. destruct H1 as [<-|[]].
    apply in_flat_map in H2. destruct H2 as (t & _ & H). destruct (t <=? 55); [destruct H as [E|[]]; discriminate E|apply in_promos' in H; cbn in H; intuition discriminate].
  - intros x H1 H2.
    assert (Q : mcap x = false).
    { destruct (all && _); [|destruct H1]. destruct (f + 8 <=? 55).
      - destruct H1 as [<-|H1]; [reflexivity|]. destruct (_ && _); [|destruct H1]. destruct H1 as [<-|[]]. reflexivity.
      - apply in_promos' in H1. tauto. }
    apply in_app_or in H2. destruct H2 as [H2|H2].
    + destruct (negb (ep g =? NOSQ) && _); [|destruct H2]. destruct H2 as [<-|[]]. discriminate Q.
    + apply in_flat_map in H2. destruct H2 as (t & _ & H). destruct (t <=? 55); [destruct H as [<-|[]]; discriminate Q|apply in_promos' in H; intuition congruence].
Qed.
End G.

(* ---- the whole list: the eight segments carry pairwise different classes ---- *)
Definition cls (m : move) : N := if mcastle m then (if (mto m =? 62) || (mto m =? 6) then 100 else 101) else mpiece m.
Definition clsin (cs : list N) (l : list move) : Prop := forall x, In x l -> In (cls x) cs.

Lemma clsin_app c cs l1 l2 : clsin [c] l1 -> clsin cs l2 -> clsin (c :: cs) (l1 ++ l2).
Proof.
  intros A B x H. apply in_app_or in H. destruct H as [H|H]; [left; destruct (A x H) as [E|[]]; exact E|right; exact (B x H)].
Qed.
Lemma NoDup_chain c cs l1 l2 : NoDup l1 -> clsin [c] l1 -> NoDup l2 -> clsin cs l2 -> ~ In c cs -> NoDup (l1 ++ l2).
Proof.
  intros N1 C1 N2 C2 NI. apply NoDup_app'; [exact N1|exact N2|]. intros x H1 H2. destruct (C1 x H1) as [E|[]]. apply NI. rewrite E. exact (C2 x H2).
Qed.

Section G2.
Variable g : game.
Lemma cls_pm all opp p att : clsin [p] (piece_moves g all opp p att).
Proof. intros x H. destruct (pm_tag g all opp p att x H) as (P & CS). left. unfold cls. rewrite CS. symmetry. exact P. Qed.
Lemma cls_wp all : clsin [WP] (flat_map (white_pawn_moves g all) (bits_of (bb g WP))).
Proof. intros x H. apply in_flat_map in H. destruct H as (f & _ & H). destruct (wp_tag g all f x H) as (P & _ & CS). left. unfold cls. rewrite CS. symmetry. exact P. Qed.
Lemma cls_bp all : clsin [BP] (flat_map (black_pawn_moves g all) (bits_of (bb g BP))).
Proof. intros x H. apply in_flat_map in H. destruct H as (f & _ & H). destruct (bp_tag g all f x H) as (P & _ & CS). left. unfold cls. rewrite CS. symmetry. exact P. Qed.
Lemma cls_castle all right mask ksq cross bw t king c : (if (t =? 62) || (t =? 6) then 100 else 101) = c ->
  clsin [c] (castle_move g all right mask ksq cross bw t king).
Proof. intros E x H. rewrite (castle_tag g _ _ _ _ _ _ _ _ x H). left. unfold cls. cbn [mcastle mto mk]. symmetry. exact E. Qed.

Lemma NoDup_wpawns all : NoDup (flat_map (white_pawn_moves g all) (bits_of (bb g WP))).
Proof.
  apply NoDup_flat_map'; [apply bits_of_nodup|intros f _; apply NoDup_wp|]. intros a b x _ _ H1 H2.
  destruct (wp_tag g all a x H1) as (_ & <- & _). destruct (wp_tag g all b x H2) as (_ & <- & _). reflexivity.
Qed.
Lemma NoDup_bpawns all : NoDup (flat_map (black_pawn_moves g all) (bits_of (bb g BP))).
Proof.
  apply NoDup_flat_map'; [apply bits_of_nodup|intros f _; apply NoDup_bp|]. intros a b x _ _ H1 H2.
  destruct (bp_tag g all a x H1) as (_ & <- & _). destruct (bp_tag g all b x H2) as (_ & <- & _). reflexivity.
Qed.

Ltac notin := cbn [In]; intros H; repeat (destruct H as [H|H]; [discriminate H|]); exact H.

Theorem generate_moves_NoDup all : NoDup (generate_moves g all).
Proof.
  unfold generate_moves. destruct (white g).
  - apply (NoDup_chain WP [100; 101; WN; WB; WR; WQ; WK]); [apply NoDup_wpawns|apply cls_wp| | |notin].
    2:{ repeat (apply clsin_app; [first [apply cls_castle; reflexivity|apply cls_pm]|]). apply cls_pm. }
    apply (NoDup_chain 100 [101; WN; WB; WR; WQ; WK]); [apply NoDup_castle|apply cls_castle; reflexivity| | |notin].
    2:{ repeat (apply clsin_app; [first [apply cls_castle; reflexivity|apply cls_pm]|]). apply cls_pm. }
    apply (NoDup_chain 101 [WN; WB; WR; WQ; WK]); [apply NoDup_castle|apply cls_castle; reflexivity| | |notin].
    2:{ repeat (apply clsin_app; [apply cls_pm|]). apply cls_pm. }
    apply (NoDup_chain WN [WB; WR; WQ; WK]); [apply NoDup_piece_moves|apply cls_pm| | |notin].
    2:{ repeat (apply clsin_app; [apply cls_pm|]). apply cls_pm. }
    apply (NoDup_chain WB [WR; WQ; WK]); [apply NoDup_piece_moves|apply cls_pm| | |notin].
    2:{ repeat (apply clsin_app; [apply cls_pm|]). apply cls_pm. }
    apply (NoDup_chain WR [WQ; WK]); [apply NoDup_piece_moves|apply cls_pm| | |notin].
    2:{ repeat (apply clsin_app; [apply cls_pm|]). apply cls_pm. }
    apply (NoDup_chain WQ [WK]); [apply NoDup_piece_moves|apply cls_pm|apply NoDup_piece_moves|apply cls_pm|notin].
  - apply (NoDup_chain BP [100; 101; BN; BB; BR; BQ; BK]); [apply NoDup_bpawns|apply cls_bp| | |notin].
    2:{ repeat (apply clsin_app; [first [apply cls_castle; reflexivity|apply cls_pm]|]). apply cls_pm. }
    apply (NoDup_chain 100 [101; BN; BB; BR; BQ; BK]); [apply NoDup_castle|apply cls_castle; reflexivity| | |notin].
    2:{ repeat (apply clsin_app; [first [apply cls_castle; reflexivity|apply cls_pm]|]). apply cls_pm. }
    apply (NoDup_chain 101 [BN; BB; BR; BQ; BK]); [apply NoDup_castle|apply cls_castle; reflexivity| | |notin].
    2:{ repeat (apply clsin_app; [apply cls_pm|]). apply cls_pm. }
    apply (NoDup_chain BN [BB; BR; BQ; BK]); [apply NoDup_piece_moves|apply cls_pm| | |notin].
    2:{ repeat (apply clsin_app; [apply cls_pm|]). apply cls_pm. }
    apply (NoDup_chain BB [BR; BQ; BK]); [apply NoDup_piece_moves|apply cls_pm| | |notin].
    2:{ repeat (apply clsin_app; [apply cls_pm|]). apply cls_pm. }
    apply (NoDup_chain BR [BQ; BK]); [apply NoDup_piece_moves|apply cls_pm| | |notin].
    2:{ repeat (apply clsin_app; [apply cls_pm|]). apply cls_pm. }
    apply (NoDup_chain BQ [BK]); [apply NoDup_piece_moves|apply cls_pm|apply NoDup_piece_moves|apply cls_pm|notin].
Qed.
End G2.
Print Assumptions generate_moves_NoDup.
