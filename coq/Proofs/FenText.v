(* C05, FEN texts: for EVERY text of the shape  board " " side " " rights " " ep " " halfmove " " fullmove  whose six fields describe a
   position g satisfying the invariant -- any well-formed board text with g's cells (digit runs split any way), "w"/"b", any
   space-free rights text containing exactly the letters of g's rights, "-" or the name of g's en-passant square, and decimal texts of
   the two clocks -- Game::new_from_fen (Model/Fen.v) returns exactly g.  Quantified over the texts, not over one printer. *)
From Coq Require Import NArith ZArith List Bool String Ascii Lia.
From JV Require Import Gen.Consts Model.Bits Model.Chess Model.SearchChess Model.Fen Model.FenSyntax Proofs.ZobristProofs Proofs.GenProofs Proofs.ConsProofs Proofs.RangeProofs
  Proofs.CellProofs Proofs.LegalInv Proofs.FenBoard Proofs.StartPos.
Import ListNotations.
Local Open Scope string_scope.

(* ---- strings ---- *)
Lemma app_assoc_s a b c : (a ++ b) ++ c = a ++ (b ++ c).
Proof. induction a as [|x a IH]; cbn; [reflexivity|rewrite IH; reflexivity]. Qed.
Lemma app_nil_r_s a : a ++ "" = a.
Proof. induction a as [|x a IH]; cbn; [reflexivity|rewrite IH; reflexivity]. Qed.
Lemma srev_acc_app s : forall acc, srev_acc s acc = srev s ++ acc.
Proof.
  unfold srev. induction s as [|x s IH]; intros acc; cbn [srev_acc]; [reflexivity|].
  rewrite (IH (String x acc)), (IH (String x "")). rewrite app_assoc_s. reflexivity.
Qed.
Lemma srev_cons x s : srev (String x s) = srev s ++ String x "".
Proof. unfold srev at 1. cbn [srev_acc]. apply srev_acc_app. Qed.
Lemma srev_app a b : srev (a ++ b) = srev b ++ srev a.
Proof.
  induction a as [|x a IH]; cbn [append]; [rewrite app_nil_r_s; reflexivity|]. rewrite !srev_cons, IH, app_assoc_s. reflexivity.
Qed.
Lemma srev_invol s : srev (srev s) = s.
Proof. induction s as [|x s IH]; [reflexivity|]. rewrite srev_cons, srev_app, IH. reflexivity. Qed.

Fixpoint nospace (s : string) : bool := match s with EmptyString => true | String c r => negb (Ascii.eqb c sp) && nospace r end.

Lemma split_acc_field a : forall cur b, nospace a = true -> split_sp_acc (a ++ String sp b) cur = (srev cur ++ a) :: split_sp_acc b "".
Proof.
  induction a as [|x a IH]; intros cur b NS; cbn [append split_sp_acc].
  - rewrite Ascii.eqb_refl, app_nil_r_s. reflexivity.
  - cbn [nospace] in NS. apply andb_true_iff in NS. destruct NS as [N1 N2]. apply negb_true_iff in N1. rewrite N1.
    rewrite (IH (String x cur) b N2), srev_cons, app_assoc_s. reflexivity.
Qed.
Lemma split_acc_last a : forall cur, nospace a = true -> split_sp_acc a cur = [srev cur ++ a].
Proof.
  induction a as [|x a IH]; intros cur NS; cbn [split_sp_acc].
  - rewrite app_nil_r_s. reflexivity.
  - cbn [nospace] in NS. apply andb_true_iff in NS. destruct NS as [N1 N2]. apply negb_true_iff in N1. rewrite N1.
    rewrite (IH (String x cur) N2), srev_cons, app_assoc_s. reflexivity.
Qed.
Lemma split_field a b : nospace a = true -> split_sp (a ++ String sp b) = a :: split_sp b.
Proof. intros NS. unfold split_sp. rewrite (split_acc_field a "" b NS). reflexivity. Qed.
Lemma split_last a : nospace a = true -> split_sp a = [a].
Proof. intros NS. unfold split_sp. rewrite (split_acc_last a "" NS). reflexivity. Qed.

(* trimming a text that neither starts nor ends with white space *)
Definition first_ok (s : string) : bool := match s with String c _ => negb (is_ws c) | EmptyString => false end.
Lemma ltrim_id s : first_ok s = true -> ltrim s = s.
Proof. destruct s as [|c r]; [discriminate|]. cbn [first_ok ltrim]. intros H. apply negb_true_iff in H. rewrite H. reflexivity. Qed.
Lemma trim_id s : first_ok s = true -> first_ok (srev s) = true -> trim s = s.
Proof. intros A B. unfold trim. rewrite (ltrim_id s A), (ltrim_id (srev s) B). apply srev_invol. Qed.
Lemma first_ok_app a b : first_ok a = true -> first_ok (a ++ b) = true.
Proof. destruct a; [discriminate|]. cbn. auto. Qed.

(* ---- the fields ---- *)
Definition tokc_ok (t : btok) : bool := negb (Ascii.eqb (tok_char t) sp) && negb (is_ws (tok_char t)).
Lemma tokc_pieces : forallb (fun p => tokc_ok (TPiece p)) (seqN 0 12) = true. Proof. vm_compute. reflexivity. Qed.
Lemma tokc_digits : forallb (fun n => tokc_ok (TEmpty n)) (seqN 1 8) = true. Proof. vm_compute. reflexivity. Qed.
Lemma tokc t : tok_ok t = true -> tokc_ok t = true.
Proof.
  destruct t as [p|n|]; cbn [tok_ok]; intros H.
  - apply N.ltb_lt in H. pose proof tokc_pieces as X. rewrite forallb_forall in X. apply (X p). apply in_seqN; [lia|cbn; lia].
  - apply andb_true_iff in H. destruct H as [A B]. apply N.leb_le in A, B. pose proof tokc_digits as X. rewrite forallb_forall in X. apply (X n). apply in_seqN; [lia|cbn; lia].
  - reflexivity.
Qed.
Lemma render_nospace tl : forallb tok_ok tl = true -> nospace (render tl) = true.
Proof.
  induction tl as [|t r IH]; intros H; [reflexivity|]. cbn [forallb] in H. apply andb_true_iff in H. destruct H as [H1 H2].
  cbn [render nospace]. pose proof (tokc t H1) as X. unfold tokc_ok in X. apply andb_true_iff in X. destruct X as [X _]. rewrite X. cbn [andb]. apply IH. exact H2.
Qed.
Lemma render_first tl : forallb tok_ok tl = true -> tl <> [] -> first_ok (render tl) = true.
Proof.
  destruct tl as [|t r]; [intros _ H; contradiction|]. intros H _. cbn [forallb] in H. apply andb_true_iff in H. destruct H as [H1 _].
  cbn [render first_ok]. pose proof (tokc t H1) as X. unfold tokc_ok in X. apply andb_true_iff in X. tauto.
Qed.

(* decimal texts accepted by str::parse *)
Fixpoint allnw (s : string) : bool := match s with EmptyString => true | String c r => negb (Ascii.eqb c sp) && negb (is_ws c) && allnw r end.
Lemma digit_nw c : is_digit c = true -> negb (Ascii.eqb c sp) && negb (is_ws c) = true.
Proof.
  unfold is_digit, is_ws. cbn zeta. intros H. apply andb_true_iff in H. destruct H as [A B]. apply N.leb_le in A, B.
  destruct (Ascii.eqb_spec c sp) as [->|_]; [cbn in A; lia|]. cbn [negb andb].
  repeat match goal with |- context [N.eqb (N_of_ascii c) ?k] => destruct (N.eqb_spec (N_of_ascii c) k); [lia|] end. reflexivity.
Qed.
Lemma digits_allnw s : forall acc v, digits_val s acc = Some v -> allnw s = true.
Proof.
  induction s as [|c r IH]; intros acc v H; [reflexivity|]. cbn [digits_val] in H. destruct (is_digit c) eqn:D; [|discriminate H].
  cbn [allnw]. rewrite (digit_nw c D). cbn [andb]. apply (IH _ _ H).
Qed.
Lemma parse_uint_shape bound s v : parse_uint bound s = Some v -> allnw s = true /\ s <> "".
Proof.
  unfold parse_uint. destruct s as [|c r]; [discriminate|]. intros H. split; [|discriminate].
  destruct (Ascii.eqb_spec c "+"%char) as [->|NE].
  - destruct r as [|d r']; [discriminate H|]. destruct (digits_val (String d r') 0) as [x|] eqn:DV; [|discriminate H].
    cbn [allnw]. change (negb (Ascii.eqb "+"%char sp) && negb (is_ws "+"%char)) with true. cbn [andb]. apply (digits_allnw _ _ _ DV).
  - destruct (digits_val (String c r) 0) as [x|] eqn:DV; [|discriminate H]. apply (digits_allnw _ _ _ DV).
Qed.
Lemma allnw_nospace s : allnw s = true -> nospace s = true.
Proof.
  induction s as [|c r IH]; intros H; [reflexivity|]. cbn [allnw] in H. apply andb_true_iff in H. destruct H as [H H2]. apply andb_true_iff in H. destruct H as [H1 _].
  cbn [nospace]. rewrite H1. apply IH. exact H2.
Qed.
Lemma allnw_last s : allnw s = true -> s <> "" -> first_ok (srev s) = true.
Proof.
  induction s as [|c r IH]; intros H NE; [contradiction|]. cbn [allnw] in H. apply andb_true_iff in H. destruct H as [H H2]. apply andb_true_iff in H. destruct H as [_ H1].
  rewrite srev_cons. destruct r as [|d r']; [cbn; exact H1|]. apply first_ok_app. apply IH; [exact H2|discriminate].
Qed.

Definition rights_val (x : N) : N :=
  ((if N.testbit x 0 then 1 else 0) + (if N.testbit x 1 then 2 else 0) + (if N.testbit x 2 then 4 else 0) + (if N.testbit x 3 then 8 else 0))%N.
Lemma rights_check : forallb (fun x => N.eqb (rights_val x) x) (seqN 0 16) = true. Proof. vm_compute. reflexivity. Qed.
Lemma rights_eq x : (x < 16)%N -> rights_val x = x.
Proof. intros L. apply N.eqb_eq. pose proof rights_check as X. rewrite forallb_forall in X. apply (X x). apply in_seqN; [lia|cbn; lia]. Qed.

(* ---- the whole text ---- *)
Theorem fen_text_parses g tl cs es hs fs :
  cons g -> range g -> keyok g -> (castling g < 16)%N ->
  forallb tok_ok tl = true -> expand tl = map (who (st_of g)) (seqN 0 64) ->
  nospace cs = true ->
  contains_char cs "K"%char = N.testbit (castling g) 0 -> contains_char cs "Q"%char = N.testbit (castling g) 1 ->
  contains_char cs "k"%char = N.testbit (castling g) 2 -> contains_char cs "q"%char = N.testbit (castling g) 3 ->
  nospace es = true -> ((es = "-" /\ ep g = NOSQ) \/ (String.eqb es "-" = false /\ square_from_string es = Some (ep g))) ->
  parse_uint 256 hs = Some (half g) -> parse_uint 65536 fs = Some (full g) ->
  new_from_fen (render tl ++ " " ++ (if white g then "w" else "b") ++ " " ++ cs ++ " " ++ es ++ " " ++ hs ++ " " ++ fs) = FOk g.
Proof.
  intros C R KO CR OK EX NC CK CQ Ck Cq NE EP PH PF.
  destruct (parse_uint_shape _ _ _ PH) as (AH & _). destruct (parse_uint_shape _ _ _ PF) as (AF & NF).
  assert (TLNE : tl <> []) by (intros ->; discriminate EX).
  set (F := render tl ++ " " ++ (if white g then "w" else "b") ++ " " ++ cs ++ " " ++ es ++ " " ++ hs ++ " " ++ fs).
  assert (TR : trim F = F).
  { apply trim_id.
    - unfold F. apply first_ok_app. apply render_first; assumption.
    - unfold F. rewrite !srev_app. rewrite !app_assoc_s. apply first_ok_app. apply allnw_last; assumption. }
  unfold new_from_fen. rewrite TR. unfold F.
  assert (SPE : forall x, " " ++ x = String sp x) by reflexivity. rewrite !SPE.
  rewrite (split_field (render tl) _ (render_nospace tl OK)).
  rewrite (split_field (if white g then "w" else "b") _ ltac:(destruct (white g); reflexivity)).
  rewrite (split_field cs _ NC), (split_field es _ NE), (split_field hs _ (allnw_nospace hs AH)), (split_last fs (allnw_nospace fs AF)).
  rewrite (board_text_parses g C R tl OK EX). cbn [List.tl].
  assert (EPV : (if String.eqb es "-" then Some NOSQ else square_from_string es) = Some (ep g)).
  { destruct EP as [(-> & E)|(E1 & E2)]; [rewrite E; reflexivity|rewrite E1; exact E2]. }
  rewrite EPV, PH, PF. rewrite CK, CQ, Ck, Cq. fold (rights_val (castling g)). rewrite (rights_eq _ CR).
  assert (W : String.eqb (if white g then "w" else "b") "w" = white g) by (destruct (white g); reflexivity). rewrite W.
  f_equal. unfold keyok in KO.
  rewrite (key_function (mkGame (bbs g) (wocc g) (bocc g) (aocc g) (white g) (ep g) (castling g) (half g) (full g) 0) g) by reflexivity.
  rewrite <- KO. destruct g; reflexivity.
Qed.
Print Assumptions fen_text_parses.

(* the same with the blank that `position fen ... moves ...` leaves behind the text *)
Lemma trim_trailing_space s : first_ok s = true -> first_ok (srev s) = true -> trim (s ++ " ") = s.
Proof.
  intros A B. unfold trim. rewrite (ltrim_id (s ++ " ") (first_ok_app s " " A)). rewrite srev_app.
  change (srev " ") with " ". change (" " ++ srev s) with (String sp (srev s)). cbn [ltrim]. change (is_ws sp) with true. cbn iota.
  rewrite (ltrim_id (srev s) B). apply srev_invol.
Qed.

(* not vacuous: the standard start position text is such a text, for the start position *)
Definition start_tokens : list btok :=
  map TPiece [9; 7; 8; 10; 11; 8; 7; 9]%N ++ [TSlash] ++ map TPiece (repeat 6%N 8) ++ [TSlash] ++
  [TEmpty 8; TSlash; TEmpty 8; TSlash; TEmpty 8; TSlash; TEmpty 8; TSlash] ++ map TPiece (repeat 0%N 8) ++ [TSlash] ++ map TPiece [3; 1; 2; 4; 5; 2; 1; 3]%N.
Example start_fen_is_such_a_text :
  start_fen = render start_tokens ++ " " ++ "w" ++ " " ++ "KQkq" ++ " " ++ "-" ++ " " ++ "0" ++ " " ++ "1" /\
  forallb tok_ok start_tokens = true /\ expand start_tokens = map (who (st_of StartPos.start_game)) (seqN 0 64) /\
  parse_uint 256 "0" = Some (half StartPos.start_game) /\ parse_uint 65536 "1" = Some (full StartPos.start_game) /\ castling StartPos.start_game = 15%N.
Proof. vm_compute. repeat split. Qed.
