(* C05: an executable form of "the text F describes the position g" (fen_describes) and its soundness: whenever it evaluates to true,
   new_from_fen F = FOk g.  Extracted and evaluated by the check on every FEN text of the stream. *)
From Coq Require Import NArith ZArith List Bool String Ascii Lia.
From JV Require Import Gen.Consts Model.Bits Model.Chess Model.SearchChess Model.Fen Model.Abs Model.FenSyntax Proofs.ZobristProofs Proofs.GenProofs Proofs.ConsProofs Proofs.RangeProofs
  Proofs.CellProofs Proofs.LegalInv Proofs.LegalInvB Proofs.FenBoard Proofs.FenText.
Import ListNotations.
Local Open Scope string_scope.

Definition all_ascii : list ascii := map ascii_of_N (seqN 0 256).
Definition lex_char_ok (c : ascii) : bool :=
  match lex_char c with Some t => implb (tok_ok t) (Ascii.eqb (tok_char t) c) | None => true end.
Lemma lex_chars_check : forallb lex_char_ok all_ascii = true. Proof. vm_compute. reflexivity. Qed.
Lemma in_all_ascii c : In c all_ascii.
Proof.
  unfold all_ascii. rewrite <- (ascii_N_embedding c). apply in_map. apply in_seqN; [lia|]. cbn. pose proof (N_ascii_bounded c). lia.
Qed.
Lemma lex_char_sound c t : lex_char c = Some t -> tok_ok t = true -> tok_char t = c.
Proof.
  intros L OK. pose proof lex_chars_check as X. rewrite forallb_forall in X. specialize (X c (in_all_ascii c)). unfold lex_char_ok in X. rewrite L, OK in X.
  cbn [implb] in X. apply Ascii.eqb_eq. exact X.
Qed.
Lemma lex_board_sound s : forall tl, lex_board s = Some tl -> forallb tok_ok tl = true -> render tl = s.
Proof.
  induction s as [|c r IH]; intros tl L OK; cbn [lex_board] in L.
  - injection L as <-. reflexivity.
  - destruct (lex_char c) as [t|] eqn:LC; [|discriminate L]. destruct (lex_board r) as [l|] eqn:LR; [|discriminate L]. injection L as <-.
    cbn [forallb] in OK. apply andb_true_iff in OK. destruct OK as [O1 O2]. cbn [render]. rewrite (lex_char_sound c t LC O1), (IH l eq_refl O2). reflexivity.
Qed.

Lemma cells_eqb_eq a : forall b, cells_eqb a b = true -> a = b.
Proof.
  induction a as [|x a IH]; intros [|y b] H; try discriminate H; [reflexivity|]. cbn [cells_eqb] in H. apply andb_true_iff in H. destruct H as [H1 H2].
  rewrite (IH b H2). f_equal. destruct x, y; try discriminate H1; [apply N.eqb_eq in H1; congruence|reflexivity].
Qed.

Lemma cellN_who g i : cellN g i = who (st_of g) i.
Proof. reflexivity. Qed.

(* split and join *)
Fixpoint join_sp (l : list string) : string :=
  match l with [] => "" | [x] => x | x :: r => x ++ String sp (join_sp r) end.
Lemma split_acc_nonempty s : forall cur, exists y l, split_sp_acc s cur = y :: l.
Proof.
  induction s as [|c r IH]; intros cur; cbn [split_sp_acc]; [eauto|]. destruct (Ascii.eqb c sp); [eauto|apply IH].
Qed.
Lemma split_acc_join s : forall cur, join_sp (split_sp_acc s cur) = srev cur ++ s.
Proof.
  induction s as [|c r IH]; intros cur; cbn [split_sp_acc].
  - cbn [join_sp]. symmetry. apply app_nil_r_s.
  - destruct (Ascii.eqb_spec c sp) as [->|NE].
    + destruct (split_acc_nonempty r "") as (y & l & E). cbn [join_sp]. rewrite E. rewrite <- E. rewrite (IH ""). reflexivity.
    + rewrite (IH (String c cur)), srev_cons, app_assoc_s. reflexivity.
Qed.
Lemma split_join s : join_sp (split_sp s) = s.
Proof. unfold split_sp. apply (split_acc_join s ""). Qed.

(* the fields produced by split contain no blank *)
Lemma split_acc_nospace s : forall cur, nospace (srev cur) = true -> Forall (fun x => nospace x = true) (split_sp_acc s cur).
Proof.
  assert (NA : forall a b, nospace a = true -> nospace b = true -> nospace (a ++ b) = true).
  { induction a as [|x a IHa]; intros b A B; cbn [append nospace] in *; [exact B|]. apply andb_true_iff in A. destruct A as [A1 A2]. rewrite A1. apply IHa; assumption. }
  induction s as [|c r IH]; intros cur NC; cbn [split_sp_acc].
  - constructor; [exact NC|constructor].
  - destruct (Ascii.eqb_spec c sp) as [->|NE].
    + constructor; [exact NC|]. apply IH. reflexivity.
    + apply IH. rewrite srev_cons. apply NA; [exact NC|]. cbn [nospace]. destruct (Ascii.eqb_spec c sp); [contradiction|reflexivity].
Qed.
Lemma split_nospace s : Forall (fun x => nospace x = true) (split_sp s).
Proof. apply split_acc_nospace. reflexivity. Qed.

Theorem fen_describes_sound g F : fen_describes g F = true -> new_from_fen F = FOk g.
Proof.
  unfold fen_describes. intros H.
  destruct (split_sp F) as [|b [|a [|cs [|es [|hs [|fs [|x r]]]]]]] eqn:SP; try discriminate H.
  destruct (lex_board b) as [tl|] eqn:LB; [|discriminate H].
  apply andb_true_iff in H. destruct H as [H LIB]. apply andb_true_iff in H. destruct H as [H CR]. apply andb_true_iff in H. destruct H as [H PF].
  apply andb_true_iff in H. destruct H as [H PH]. apply andb_true_iff in H. destruct H as [H EP]. apply andb_true_iff in H. destruct H as [H Cq].
  apply andb_true_iff in H. destruct H as [H Ck]. apply andb_true_iff in H. destruct H as [H CQ]. apply andb_true_iff in H. destruct H as [H CK].
  apply andb_true_iff in H. destruct H as [H AC]. apply andb_true_iff in H. destruct H as [OK CE].
  pose proof (split_join F) as J. rewrite SP in J. cbn [join_sp] in J.
  pose proof (split_nospace F) as NS. rewrite SP in NS.
  pose proof (Forall_inv NS) as N1. pose proof (Forall_inv_tail NS) as NS1. pose proof (Forall_inv NS1) as N2. pose proof (Forall_inv_tail NS1) as NS2.
  pose proof (Forall_inv NS2) as N3. pose proof (Forall_inv_tail NS2) as NS3. pose proof (Forall_inv NS3) as N4. cbn beta in N3, N4.
  destruct (legal_inv_b_sound g LIB) as (C & KG & R & NK & KO).
  apply cells_eqb_eq in CE. rewrite (map_ext _ _ (cellN_who g)) in CE. apply String.eqb_eq in AC. apply eqb_prop in CK, CQ, Ck, Cq. apply N.ltb_lt in CR.
  rewrite <- J. rewrite <- (lex_board_sound b tl LB OK). rewrite AC.
  refine (fen_text_parses g tl cs es hs fs C R KO CR OK CE N3 CK CQ Ck Cq N4 _ _ _).
  - destruct (String.eqb_spec es "-") as [->|NE]; [left; split; [reflexivity|apply N.eqb_eq; exact EP]|right; split; [reflexivity|]].
    destruct (square_from_string es) as [e|]; [|discriminate EP]. apply N.eqb_eq in EP. congruence.
  - destruct (parse_uint 256 hs) as [v|]; [|discriminate PH]. apply N.eqb_eq in PH. congruence.
  - destruct (parse_uint 65536 fs) as [v|]; [|discriminate PF]. apply N.eqb_eq in PF. congruence.
Qed.
Print Assumptions fen_describes_sound.
