(* The token-level argument loop of parse_go (Model/Uci.v: go_tokens, on the words of the line, with str::parse, the skipped clock arguments of the
   other colour, the early returns and the panics) refines the loop over already parsed (keyword, value) pairs that the C10 theorems are stated
   with (Model/Go.v: go_loop): whenever the token loop ends with arguments to search with, they are the result of go_loop on some list of pairs
   whose values are i64 readings of words of the line.  Hence the budget theorems cover what the real token parser can produce. *)
From Coq Require Import ZArith List Bool String Lia.
From JV Require Import Model.Go Model.Uci.
Import ListNotations.

Definition from_tokens (toks : list string) (kv : kw * Z) : Prop := exists t, In t toks /\ parse_i64 t = Some (snd kv).

Lemma from_tokens_mono toks toks' args : (forall t, In t toks -> In t toks') -> Forall (from_tokens toks) args -> Forall (from_tokens toks') args.
Proof. intros S F. eapply Forall_impl; [|exact F]. intros kv (t & I & P). exists t. split; [apply S; exact I|exact P]. Qed.

Lemma in_tl {A} (x : A) l : In x (tl l) -> In x l.
Proof. destruct l; [intros []|intros H; right; exact H]. Qed.

Lemma go_tokens_refines_go_loop fuel : forall white a toks msgs a' msgs',
  go_tokens white a toks msgs fuel = GoArgs a' msgs' ->
  exists args, go_loop white a args = Some a' /\ Forall (from_tokens toks) args.
Proof.
  induction fuel as [|f IH]; intros white a toks msgs a' msgs' H.
  - cbn [go_tokens] in H. injection H as <- _. exists []. split; [reflexivity|constructor].
  - cbn [go_tokens] in H. destruct toks as [|t r].
    { injection H as <- _. exists []. split; [reflexivity|constructor]. }
    assert (SK : forall toks' msgs0, (forall x, In x toks' -> In x (t :: r)) -> go_tokens white a toks' msgs0 f = GoArgs a' msgs' ->
                 exists args, go_loop white a args = Some a' /\ Forall (from_tokens (t :: r)) args).
    { intros toks' msgs0 S G. destruct (IH _ _ _ _ _ _ G) as (args & L & F). exists args. split; [exact L|]. eapply from_tokens_mono; eassumption. }
    assert (ST : forall k v r' z a1, r = v :: r' -> parse_i64 v = Some z -> go_step white a k z = Some a1 ->
                 go_tokens white a1 r' msgs f = GoArgs a' msgs' ->
                 exists args, go_loop white a args = Some a' /\ Forall (from_tokens (t :: r)) args).
    { intros k v r' z a1 -> P S G. destruct (IH _ _ _ _ _ _ G) as (args & L & F). exists ((k, z) :: args). split.
      - cbn [go_loop]. rewrite S. exact L.
      - constructor; [exists v; split; [right; left; reflexivity|exact P]|].
        eapply from_tokens_mono; [|exact F]. intros x I. right. right. exact I. }
    destruct (String.eqb t "") eqn:E0. { apply (SK r msgs); [intros x I; right; exact I|exact H]. }
    cbv zeta in H.
    repeat match type of H with
           | context [if String.eqb t ?s then _ else _] => destruct (String.eqb t s); cbv beta iota in H
           end;
    try (apply (SK r msgs); [intros x I; right; exact I|exact H]);
    try (destruct white; cbv beta iota delta [negb] in H);
    try (apply (SK (tl r) msgs); [intros x I; right; apply in_tl; exact I|exact H]);
    try (destruct r as [|v r']; [discriminate H|]; destruct (parse_i64 v) as [z|] eqn:P; [|discriminate H];
         match type of H with context [go_step ?w a ?k z] => destruct (go_step w a k z) as [a1|] eqn:S; [|discriminate H];
           exact (ST k v r' z a1 eq_refl P S H) end).
    all: try discriminate H.
    all: try (eapply SK; [|exact H]; intros x I; right; exact I).
Qed.
