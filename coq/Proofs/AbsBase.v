(* Coordinates and 64-cell boards: the glue between square numbers and the specification's (file, rank) squares. *)
From Coq Require Import NArith ZArith List Bool Lia.
From JV Require Import Gen.Consts Model.Bits Model.Chess Model.Abs Spec.ChessSpec Proofs.BitsProofs.
Import ListNotations.

Lemma sq_idx s : (s < 64)%N -> idx (sq_of_idx s) = N.to_nat s /\ onb (sq_of_idx s) = true.
Proof.
  intros L. unfold idx, sq_of_idx, onb. cbn [fst snd].
  pose proof (N.div_mod s 8 ltac:(lia)) as DM. pose proof (N.mod_lt s 8 ltac:(lia)) as ML.
  assert (DL : (s / 8 < 8)%N) by (apply N.div_lt_upper_bound; lia).
  set (q := (s / 8)%N) in *. set (r := (s mod 8)%N) in *. clearbody q r.
  split.
  - replace (8 * (7 - (7 - Z.of_N q)) + Z.of_N r)%Z with (Z.of_N s) by lia. lia.
  - repeat (apply andb_true_iff; split); try (apply Z.leb_le; lia); try (apply Z.ltb_lt; lia).
Qed.

Lemma sq_of_idx_inj a b : (a < 64)%N -> (b < 64)%N -> sq_of_idx a = sq_of_idx b -> a = b.
Proof.
  intros A B E. destruct (sq_idx a A) as (IA & _). destruct (sq_idx b B) as (IB & _). rewrite E in IA. apply N2Nat.inj. congruence.
Qed.

Lemma sq_eqb_idx a b : (a < 64)%N -> (b < 64)%N -> sq_eqb (sq_of_idx a) (sq_of_idx b) = (a =? b)%N.
Proof.
  intros A B. destruct (N.eqb_spec a b) as [->|NE].
  - unfold sq_eqb. rewrite !Z.eqb_refl. reflexivity.
  - destruct (sq_eqb (sq_of_idx a) (sq_of_idx b)) eqn:E; [|reflexivity]. exfalso. apply NE. apply sq_of_idx_inj; try assumption.
    unfold sq_eqb in E. apply andb_true_iff in E. destruct E as [E1 E2]. apply Z.eqb_eq in E1, E2.
    destruct (sq_of_idx a), (sq_of_idx b). cbn in *. congruence.
Qed.

(* boards as lists *)
Lemma nth_firstn_lt {A} (l : list A) : forall n j d, (j < n)%nat -> nth j (firstn n l) d = nth j l d.
Proof.
  induction l as [|x r IH]; intros [|n] [|j] d L; cbn; try lia; try reflexivity. apply IH. lia.
Qed.
Lemma nth_skipn' {A} (l : list A) : forall n k d, nth k (skipn n l) d = nth (n + k) l d.
Proof.
  induction l as [|x r IH]; intros [|n] k d; cbn; try reflexivity; [destruct k; reflexivity|apply IH].
Qed.
Lemma nth_put (b : list (option piece)) s v j : (idx s < length b)%nat ->
  nth j (put b s v) None = if Nat.eqb j (idx s) then v else nth j b None.
Proof.
  intros L. unfold put. destruct (Nat.eqb_spec j (idx s)) as [->|NE].
  - rewrite app_nth2 by (rewrite firstn_length; lia). rewrite firstn_length. replace (idx s - Nat.min (idx s) (length b))%nat with O by lia. reflexivity.
  - destruct (Nat.lt_ge_cases j (idx s)) as [LT|GE].
    + rewrite app_nth1 by (rewrite firstn_length; lia). apply nth_firstn_lt. exact LT.
    + rewrite app_nth2 by (rewrite firstn_length; lia). rewrite firstn_length. replace (Nat.min (idx s) (length b)) with (idx s) by lia.
      destruct (j - idx s)%nat as [|k] eqn:E; [lia|]. cbn [nth]. rewrite nth_skipn'. f_equal. lia.
Qed.

Lemma put_length (b : list (option piece)) s v : (idx s < length b)%nat -> length (put b s v) = length b.
Proof.
  intros L. unfold put. rewrite app_length, firstn_length. cbn [length]. rewrite skipn_length. lia.
Qed.

(* lifting kernel-evaluated checks over the 64 squares *)
Lemma in_seqN64 s : (s < 64)%N -> In s (seqN 0 64).
Proof.
  intros L. assert (X : forall n st x, (st <= x < st + N.of_nat n)%N -> In x (seqN st n)).
  { induction n as [|n IH]; intros st x Hx; cbn [seqN In]; [lia|]. destruct (N.eq_dec st x) as [E|NE]; [left; exact E|right; apply IH; lia]. }
  apply X. cbn. lia.
Qed.
Lemma all64 (P : N -> bool) : forallb P (seqN 0 64) = true -> forall s, (s < 64)%N -> P s = true.
Proof. intros H s L. rewrite forallb_forall in H. apply H. apply in_seqN64. exact L. Qed.
Lemma all64x64 (P : N -> N -> bool) : forallb (fun a => forallb (P a) (seqN 0 64)) (seqN 0 64) = true ->
  forall a b, (a < 64)%N -> (b < 64)%N -> P a b = true.
Proof. intros H a b A B. pose proof (all64 _ H a A) as X. cbn beta in X. exact (all64 _ X b B). Qed.

Definition colZ (s : N) : Z := fst (sq_of_idx s).
Definition rowZ (s : N) : Z := snd (sq_of_idx s).
