From Coq Require Import ZArith NArith List Bool Lia FMapPositive.
From JV Require Import Gen.Consts Model.TT Spec.TTSpec.
Import ListNotations.
Local Open Scope Z_scope.

Lemma refines_last_store ops p :
  PositiveMap.find p (table ops) =
  match last_store ops p with Some (h, s, d, f, ply) => Some (mkEntry h d f (adj_store s ply)) | None => None end.
Proof.
  induction ops as [|[h s d f ply|] r IH]; cbn [table last_store].
  - apply PositiveMap.gempty.
  - unfold record. destruct (Pos.eqb_spec (slot h) p) as [E|E].
    + subst p. apply PositiveMap.gss.
    + rewrite PositiveMap.gso by congruence. exact IH.
  - apply PositiveMap.gempty.
Qed.

Definition rebase (s p q : Z) : Z := adj_load (adj_store s p) q.

Lemma last_store_stored ops h s dep f p d :
  last_store ops (slot h) = Some (h, s, dep, f, p) -> (d <= dep)%N -> stored_since_clear ops h d.
Proof.
  induction ops as [|[h' s' d' f' p'|] r IH]; cbn [last_store stored_since_clear]; intros H L.
  - discriminate.
  - destruct (Pos.eqb_spec (slot h') (slot h)) as [E|E].
    + injection H as -> -> -> -> ->. left. split; [reflexivity|exact L].
    + right. apply IH; assumption.
  - discriminate.
Qed.

Lemma probe_sound ops h d a b q r :
  probe (table ops) h d a b q = Some r ->
  exists s dep f p, last_store ops (slot h) = Some (h, s, dep, f, p) /\ (d <= dep)%N /\
    stored_since_clear ops h d /\
    let s' := rebase s p q in
    match f with FExact => r = s' | FAlpha => s' <= a /\ r = a | FBeta => s' >= b /\ r = b end.
Proof.
  unfold probe. rewrite refines_last_store.
  destruct (last_store ops (slot h)) as [[[[[h' s] dep] f] p]|] eqn:LS; [|discriminate].
  unfold answer. cbn [ehash edepth eflag escore].
  destruct (N.eqb_spec h h') as [E|E]; [subst h'|discriminate].
  destruct (N.leb_spec d dep) as [L|L]; [|discriminate].
  intros H. exists s, dep, f, p. split; [reflexivity|]. split; [exact L|].
  split; [eapply last_store_stored; eassumption|]. cbn zeta. unfold rebase.
  destruct f.
  - destruct (_ <=? a) eqn:C; [|discriminate]. injection H as <-. split; [lia|reflexivity].
  - destruct (_ >=? b) eqn:C; [|discriminate]. injection H as <-. split; [lia|reflexivity].
  - injection H as <-. reflexivity.
Qed.

Ltac ifs := repeat match goal with |- context [if ?c then _ else _] => destruct c eqn:? end.

(* a score meaning "mated n plies below the storing node (at ply p)" comes back as "mated n plies below the probing node" *)
Lemma rebase_mated n p q : 0 <= n -> 0 <= p <= 63 -> 0 <= q <= 63 -> n + p <= 128 -> n + q <= 128 ->
  rebase (- MATE_VALUE + (p + n)) p q = - MATE_VALUE + (q + n).
Proof. intros. unfold rebase, adj_store, adj_load, MATE_VALUE, MATE_BOUND. ifs; lia. Qed.
Lemma rebase_mating n p q : 0 <= n -> 0 <= p <= 63 -> 0 <= q <= 63 -> n + p <= 128 -> n + q <= 128 ->
  rebase (MATE_VALUE - (p + n)) p q = MATE_VALUE - (q + n).
Proof. intros. unfold rebase, adj_store, adj_load, MATE_VALUE, MATE_BOUND. ifs; lia. Qed.
Lemma rebase_plain s p q : - MATE_BOUND <= s <= MATE_BOUND -> rebase s p q = s.
Proof. intros. unfold rebase, adj_store, adj_load, MATE_BOUND in *. ifs; lia. Qed.
(* general form: outside the mate band nothing moves, inside it the distance to the root is exchanged,
   as long as the stored value stays inside the band *)
Lemma rebase_general s p q : 0 <= p <= 255 -> 0 <= q <= 255 -> - INFINITY <= s <= INFINITY ->
  rebase s p q = if s <? - MATE_BOUND then s - p + q else if s >? MATE_BOUND then s + p - q else s.
Proof. intros. unfold rebase, adj_store, adj_load, MATE_BOUND, INFINITY in *. ifs; lia. Qed.

Lemma retrievable ops h s d f p d' a b :
  (d' <= d)%N ->
  probe (table (Rec h s d f p :: ops)) h d' a b p =
  let s' := rebase s p p in
  match f with FExact => Some s' | FAlpha => if s' <=? a then Some a else None | FBeta => if s' >=? b then Some b else None end.
Proof.
  intros L. unfold probe. cbn [table]. unfold record. rewrite PositiveMap.gss. unfold answer.
  cbn [ehash edepth eflag escore]. rewrite N.eqb_refl.
  destruct (N.leb_spec d' d); [|lia]. reflexivity.
Qed.

Lemma rebase_same s p : 0 <= p <= 255 -> - INFINITY <= s <= INFINITY -> rebase s p p = s.
Proof. intros. unfold rebase, adj_store, adj_load, MATE_BOUND, INFINITY in *. ifs; lia. Qed.

Lemma clear_nothing ops h d a b q : probe (table (Clr :: ops)) h d a b q = None.
Proof. unfold probe. cbn [table]. unfold clear. now rewrite PositiveMap.gempty. Qed.

Lemma nothing_without_store ops h d a b q :
  ~ stored_since_clear ops h d -> probe (table ops) h d a b q = None.
Proof.
  intros NS. destruct (probe (table ops) h d a b q) eqn:P; [|reflexivity].
  apply probe_sound in P. destruct P as (s & dep & f & p & _ & _ & S & _). contradiction.
Qed.

(* i32: nothing overflows and no legitimate answer equals the sentinel i32::MIN *)
Definition i32 (x : Z) := - 2147483648 <= x <= 2147483647.
Lemma no_overflow s p q : - INFINITY <= s <= INFINITY -> 0 <= p <= 255 -> 0 <= q <= 255 ->
  i32 (adj_store s p) /\ i32 (rebase s p q) /\ rebase s p q <> UNKNOWN_SCORE.
Proof. intros. unfold i32, rebase, adj_store, adj_load, MATE_BOUND, INFINITY, UNKNOWN_SCORE in *. ifs; lia. Qed.

(* answers with alpha/beta are never the sentinel either, for any i32 window that excludes it *)
Lemma probe_not_sentinel ops h d a b q r :
  probe (table ops) h d a b q = Some r -> a <> UNKNOWN_SCORE -> b <> UNKNOWN_SCORE ->
  (forall s dep f p, last_store ops (slot h) = Some (h, s, dep, f, p) -> - INFINITY <= s <= INFINITY /\ 0 <= p <= 255) ->
  0 <= q <= 255 -> r <> UNKNOWN_SCORE.
Proof.
  intros P Ha Hb R Hq. apply probe_sound in P. destruct P as (s & dep & f & p & LS & _ & _ & M).
  destruct (R _ _ _ _ LS) as [Rs Rp]. pose proof (no_overflow s p q Rs Rp Hq) as (_ & _ & NE).
  cbn zeta in M. destruct f; [destruct M as [_ ->]; exact Ha | destruct M as [_ ->]; exact Hb | subst r; exact NE].
Qed.

(* the compiled constants agree with the source constants (tie: driver dump vs source text) *)
Lemma dump_agrees : DUMP_UNKNOWN_SCORE = UNKNOWN_SCORE /\ DUMP_MATE_VALUE = MATE_VALUE /\ DUMP_MATE_BOUND = MATE_BOUND.
Proof. repeat split; reflexivity. Qed.

(* non-vacuity: a history with a slot collision and a clear *)
Definition ex_hist := [Rec 5 (-48990) 7 FExact 10; Rec (5 + TT_SIZE) 12 3 FBeta 2; Clr; Rec 5 99 9 FAlpha 0].
Example ex_hist_probe :
  probe (table ex_hist) 5 7 (-100) 100 4 = Some (-48996) /\ probe (table ex_hist) (5 + TT_SIZE) 1 0 1 0 = None.
Proof. vm_compute. split; reflexivity. Qed.
Example ex_collision : slot 5 = slot (5 + TT_SIZE).
Proof. vm_compute. reflexivity. Qed.

(* ---- the extracted monitor accepts the model on every in-range history ---- *)
Lemma rebase_spec_eq s p q : 0 <= p <= 255 -> 0 <= q <= 255 -> - INFINITY <= s <= INFINITY -> rebase s p q = rebase_spec s p q.
Proof. intros. unfold rebase_spec. apply rebase_general; assumption. Qed.

Lemma any_store_last ops h s dep f p P :
  last_store ops (slot h) = Some (h, s, dep, f, p) -> P h s dep f p = true -> any_store ops P = true.
Proof.
  induction ops as [|[h' s' d' f' p'|] r IH]; cbn [last_store any_store]; intros H HP.
  - discriminate.
  - destruct (Pos.eqb_spec (slot h') (slot h)) as [E|E].
    + injection H as -> -> -> -> ->. rewrite HP. reflexivity.
    + rewrite (IH H HP). apply orb_true_r.
  - discriminate.
Qed.

Lemma last_store_in_range ops p h s dep f ply :
  forallb op_in_range ops = true -> last_store ops p = Some (h, s, dep, f, ply) ->
  - INFINITY <= s <= INFINITY /\ 0 <= ply <= 255.
Proof.
  induction ops as [|[h' s' d' f' p'|] r IH]; cbn [last_store forallb op_in_range]; intros R H.
  - discriminate.
  - apply andb_prop in R. destruct R as [R1 R2].
    destruct (Pos.eqb (slot h') p).
    + injection H as -> -> -> -> ->. lia.
    + apply IH; assumption.
  - discriminate.
Qed.

Lemma monitor_accepts_probe ops h d a b q :
  forallb op_in_range ops = true -> 0 <= q <= 255 ->
  acceptable ops h d a b q (probe (table ops) h d a b q) = true.
Proof.
  intros R Hq. unfold acceptable. apply andb_true_intro. split.
  - destruct (probe (table ops) h d a b q) as [r|] eqn:P; [|reflexivity].
    apply probe_sound in P. destruct P as (s & dep & f & p & LS & L & _ & M).
    destruct (last_store_in_range _ _ _ _ _ _ _ R LS) as [Rs Rp].
    eapply any_store_last; [exact LS|]. unfold consistent. rewrite N.eqb_refl.
    destruct (N.leb_spec d dep); [|lia]. cbn [andb]. cbn zeta in M |- *.
    rewrite <- rebase_spec_eq by assumption.
    destruct f; lia.
  - destruct ops as [|[h' s dep f p|] r]; cbn [just_stored]; try reflexivity.
    destruct (N.eqb_spec h h') as [E|E]; [subst h'|reflexivity].
    destruct (N.leb_spec d dep) as [L|L]; [|reflexivity].
    destruct (Z.eqb_spec p q) as [E|E]; [subst q|reflexivity]. cbn [andb].
    rewrite retrievable by exact L. cbn zeta.
    cbn [forallb op_in_range] in R. apply andb_prop in R. destruct R as [R1 _].
    rewrite rebase_same by lia.
    clear R1. destruct f; cbn [opt_eqb]; [destruct (s <=? a)|destruct (s >=? b)|]; cbn [opt_eqb]; try reflexivity; apply Z.eqb_refl.
Qed.

Lemma run_reqs_monitor hist rs :
  forallb op_in_range hist = true ->
  forallb (fun r => match r with RRec _ s _ _ p => op_in_range (Rec 0 s 0 FExact p) | RClr => true
                    | RProbe _ _ _ _ q => (0 <=? q) && (q <=? 255) end) rs = true ->
  monitor hist rs (run_reqs (table hist) rs) = true.
Proof.
  revert hist. induction rs as [|[h s d f p| |h d a b q] r IH]; intros hist RH RR; cbn [monitor run_reqs].
  - reflexivity.
  - cbn [forallb] in RR. apply andb_prop in RR. destruct RR as [R1 R2].
    change (record (table hist) h s d f p) with (table (Rec h s d f p :: hist)).
    apply IH; [|exact R2]. cbn [forallb]. rewrite RH. cbn [op_in_range] in R1 |- *. rewrite R1. reflexivity.
  - cbn [forallb] in RR. cbn [andb] in RR.
    change (clear (table hist)) with (table (Clr :: hist)). apply IH; [|exact RR]. cbn [forallb op_in_range]. exact RH.
  - cbn [forallb] in RR. apply andb_prop in RR. destruct RR as [R1 R2].
    rewrite monitor_accepts_probe by (try exact RH; lia). cbn [andb]. apply IH; assumption.
Qed.
