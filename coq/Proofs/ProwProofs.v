(* Pawns stand on ranks 2..7 along play: the halves of "no pawn on a back rank" that the range invariant does not carry
   (white pawns below rank 8 is r_wp, black pawns above rank 1 is r_bp; here: white pawns above rank 1, black pawns below rank 8).
   Needed by the colour symmetry of the evaluation (C16). *)
From Coq Require Import NArith ZArith List Bool Lia.
From JV Require Import Gen.Consts Model.Bits Model.Chess Model.Eval Model.SearchChess Model.Sym Proofs.MakeProofs Proofs.GenProofs Proofs.ConsProofs Proofs.GenOk Proofs.RangeProofs
  Proofs.AbsBase Proofs.AbsGeo Proofs.GenGeo Proofs.LegalInv Proofs.AbsMake Proofs.Soundness Proofs.UmoveInj Proofs.EvalMirror Proofs.CountProofs Proofs.EvalReach Proofs.StartPos.
Import ListNotations.
Local Open Scope N_scope.

Definition prow2 (g : game) : Prop := (forall s, tb (bb g WP) s = true -> s < 56) /\ (forall s, tb (bb g BP) s = true -> 8 <= s).

Lemma prow_of g : range g -> prow2 g -> prow g.
Proof.
  intros R (A & B). split; intros x T; split.
  - apply (r_wp g R x T). - apply (A x T). - apply (B x T). - apply (r_bp g R x T).
Qed.

Lemma rowZ_le7 s : (rowZ s <= 7)%Z.
Proof. unfold rowZ, Abs.sq_of_idx. cbn [snd]. pose proof (N2Z.is_nonneg (s / 8)). lia. Qed.

Theorem make_prow2 g all m g' : legal_inv g -> In m (generate_moves g all) -> make_search_move g m = Made g' -> prow2 g -> prow2 g'.
Proof.
  intros LI HI H (PW & PB).
  pose proof (okx g all m LI HI) as K. pose proof (gx g all m LI HI) as G. pose proof (F64 g all m LI HI) as Ff. pose proof (T64 g all m LI HI) as Tt.
  destruct LI as (C & KG & R & NK & KO). pose proof (generated_rng g C R all m HI) as RG.
  destruct (made_st_eq g m g' C K H) as (vic & V & E).
  assert (SUB : forall q s, q < 12 -> tb (bb g' q) s = true -> _) by (intros q s Q X; change (tb (bb g' q) s) with (sb (st_of g') q s) in X; rewrite (e_bs _ _ E) in X; exact (D_sub g m vic C K V q s Q X)).
  split.
  - intros s X. destruct (SUB WP s ltac:(reflexivity) X) as [Y|[(-> & [(PE & PR)|(PE & PR)])|(CS & RK & _)]].
    + apply (PW s Y).
    + assert (W : white g = true) by (rewrite <- (k_own g m K), <- PE; reflexivity).
      assert (PP : mpiece m = WP \/ mpiece m = BP) by (left; symmetry; exact PE).
      destruct (mcap m) eqn:CAP.
      * pose proof (mg_pcap g m G PP CAP) as A. rewrite W in A. destruct (pawn_geo true _ _ Ff Tt A) as (_ & _ & _ & L & _). cbn in L. lia.
      * destruct (mg_push g m G PP CAP) as [(_ & REL)|(_ & REL)]; rewrite W in REL; lia.
    + exfalso. apply (proj2 (g_pr g m RG)). symmetry. exact PE.
    + exfalso. unfold rook_of in RK. destruct (white g); discriminate.
  - intros s X. destruct (SUB BP s ltac:(reflexivity) X) as [Y|[(-> & [(PE & PR)|(PE & PR)])|(CS & RK & _)]].
    + apply (PB s Y).
    + assert (W : white g = false) by (rewrite <- (k_own g m K), <- PE; reflexivity).
      assert (PP : mpiece m = WP \/ mpiece m = BP) by (right; symmetry; exact PE).
      destruct (mcap m) eqn:CAP.
      * pose proof (mg_pcap g m G PP CAP) as A. rewrite W in A. destruct (pawn_geo false _ _ Ff Tt A) as (_ & RW & _).
        destruct (rank_spec (mto m) Tt) as (R7 & _). destruct (N.ltb_spec (mto m) 8) as [L|L]; [|exact L].
        apply Z.eqb_eq in R7. pose proof (rowZ_le7 (mfrom m)). lia.
      * destruct (mg_push g m G PP CAP) as [(_ & REL)|(_ & REL)]; rewrite W in REL; lia.
    + exfalso. apply (proj1 (g_pr g m RG)). symmetry. exact PE.
    + exfalso. unfold rook_of in RK. destruct (white g); discriminate.
Qed.

Theorem reach_prow2 g0 g : legal_inv g0 -> prow2 g0 -> chess_reach g0 g -> legal_inv g /\ prow2 g.
Proof.
  intros L0 P0 R. induction R as [|g all m g' R IH HI M|g R IH IC].
  - split; assumption.
  - destruct IH as (LI & PP). split; [eapply legal_step; eassumption|].
    unfold c_make in M. destruct (make_search_move g m) as [|g''|] eqn:E; try discriminate. injection M as ->.
    apply (make_prow2 g all m g' LI HI E PP).
  - destruct IH as (LI & PP). split; [apply legal_pass; assumption|exact PP].
Qed.

Lemma prow2_b_sound g : prow2_b g = true -> prow2 g.
Proof.
  unfold prow2_b. intros H. apply andb_true_iff in H. destruct H as [A B]. apply N.ltb_lt in A. apply N.eqb_eq in B. split; intros s T.
  - apply (EvalBound.below_pow _ 56 s A T).
  - destruct (N.lt_ge_cases s 8) as [L|G]; [|exact G]. exfalso.
    assert (X : tb (N.land (bb g BP) 255) s = true) by (rewrite land_bit, T; change 255 with (N.ones 8); unfold tb; rewrite N.ones_spec_low by exact L; reflexivity).
    rewrite B in X. unfold tb in X. rewrite N.bits_0 in X. discriminate.
Qed.
Lemma start_prow2 : prow2 start_game. Proof. apply prow2_b_sound. vm_compute. reflexivity. Qed.

Theorem evaluate_mirror_inv g : legal_inv g -> prow2 g -> evaluate (mirror g) = evaluate g.
Proof. intros (C & KG & R & _) P. apply evaluate_mirror; [exact C|exact R|apply prow_of; assumption]. Qed.
Theorem evaluate_mirror_from_start g : chess_reach start_game g -> evaluate (mirror g) = evaluate g.
Proof. intros R. destruct (reach_prow2 start_game g start_game_inv start_prow2 R) as (LI & P). apply evaluate_mirror_inv; assumption. Qed.
Print Assumptions evaluate_mirror_from_start.
