(* C05 (parts): which move strings `position ... moves` accepts, and what it records as game history. *)
From Coq Require Import NArith ZArith List Bool String.
From JV Require Import Gen.Consts Model.Bits Model.Chess Model.SearchChess Model.Fen.
Import ListNotations.

(* a token is accepted exactly when some legal move prints as that token; the accepted move is legal and prints as the token *)
Lemma parse_move_sound g tok m : parse_move g tok = Some m -> In m (legal_moves g) /\ to_uci m = tok.
Proof.
  unfold parse_move. intros H. apply find_some in H. destruct H as [H1 H2]. split; [exact H1|]. apply String.eqb_eq. exact H2.
Qed.
Lemma parse_move_complete g tok m : In m (legal_moves g) -> to_uci m = tok -> exists m', parse_move g tok = Some m' /\ to_uci m' = tok.
Proof.
  unfold parse_move. intros H1 H2.
  destruct (find (fun m0 => String.eqb (to_uci m0) tok) (legal_moves g)) as [m'|] eqn:F.
  - exists m'. split; [reflexivity|]. apply find_some in F. apply String.eqb_eq. exact (proj2 F).
  - exfalso. pose proof (find_none _ _ F m H1) as N. cbn beta in N. subst tok. rewrite String.eqb_refl in N. discriminate.
Qed.
Lemma parse_move_rejects g tok : (forall m, In m (legal_moves g) -> to_uci m <> tok) -> parse_move g tok = None.
Proof.
  intros H. destruct (parse_move g tok) as [m|] eqn:P; [|reflexivity].
  apply parse_move_sound in P. destruct P as [P1 P2]. exfalso. exact (H m P1 P2).
Qed.

(* the positions of the game, move by move *)
Fixpoint positions_after (g : game) (toks : list string) : option (list game) :=
  match toks with
  | [] => Some []
  | t :: r =>
    match parse_move g t with
    | Some m => match make_search_move g m with
                | Made g' => match positions_after g' r with Some l => Some (g' :: l) | None => None end
                | _ => None
                end
    | None => None
    end
  end.

Lemma last_indep {A} (l : list A) x d d' : last (x :: l) d = last (x :: l) d'.
Proof. revert x. induction l as [|y l IH]; intros x; [reflexivity|]. cbn [last] in *. apply IH. Qed.

(* whenever the move list is accepted, the recorded history is the given history followed by the key of every position reached,
   in order, and the final game is the last of them *)
Lemma play_moves_history toks : forall g rep g' rep',
  play_moves g rep toks = FOk (g', rep') ->
  exists ps, positions_after g toks = Some ps /\ rep' = (rep ++ map hash ps)%list /\ g' = last ps g.
Proof.
  induction toks as [|t r IH]; intros g rep g' rep' H; cbn [play_moves] in H.
  - injection H as <- <-. exists []. cbn. rewrite app_nil_r. auto.
  - cbn [positions_after]. destruct (parse_move g t) as [m|]; [|discriminate].
    destruct (make_search_move g m) as [|g1|]; try discriminate.
    destruct (N.ltb _ _); [|discriminate].
    destruct (IH g1 _ g' rep' H) as (ps & P1 & P2 & P3).
    rewrite P1. exists (g1 :: ps). split; [reflexivity|]. split.
    + rewrite P2. rewrite <- app_assoc. reflexivity.
    + rewrite P3. destruct ps as [|p ps]; [reflexivity|]. change (last (g1 :: p :: ps) g) with (last (p :: ps) g). apply last_indep.
Qed.

Lemma parse_position_history args g rep :
  parse_position args = FOk (g, rep) -> exists base ps, rep = hash base :: map hash ps /\ g = last ps base.
Proof.
  unfold parse_position. intros H.
  match type of H with match ?X with _ => _ end = _ => destruct X as [[b rest]| |] eqn:B end; try discriminate.
  destruct (split_sp rest) as [|first more]; [discriminate|].
  destruct (String.eqb first "moves").
  - apply play_moves_history in H. destruct H as (ps & _ & P2 & P3). exists b, ps. split; [exact P2|exact P3].
  - injection H as <- <-. exists b, []. split; reflexivity.
Qed.
