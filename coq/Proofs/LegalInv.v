(* C06 / C02: no generated move captures a king when the side not to move is not in check (nkc from the `nk` invariant),
   via attack symmetry; the invariants `range` (men stand on board squares, pawns on ranks 2..7) and `nk` are preserved
   by make_search_move; hence consistency, one king each, the key invariant and "the side that just moved is not in check"
   hold at every position the search can reach -- with no side condition. *)
From Coq Require Import NArith ZArith List Bool Lia.
From JV Require Import Gen.Consts Spec.Rays Model.Bits Model.Chess Model.Abs Model.SearchChess Proofs.BitboardProofs Proofs.MoveGenProofs
  Proofs.ZobristProofs Proofs.KeyProofs Proofs.GenProofs Proofs.ConsProofs Proofs.GenOk Proofs.KingsProofs Proofs.MakeGen Proofs.AttackSym
  Proofs.RangeProofs Proofs.NkProofs Proofs.SearchNodes.
Import ListNotations.
Local Open Scope N_scope.

(* what a generated capture is: a man of the side to move on f whose attack set (for the current occupancy) contains t *)
Definition attacks (g : game) (p f t : N) : Prop :=
  tb (bb g p) f = true /\
  ((p = WP /\ tb (pawn_att f true) t = true) \/ (p = BP /\ tb (pawn_att f false) t = true) \/
   ((p = WN \/ p = BN) /\ tb (knight_att f) t = true) \/ ((p = WK \/ p = BK) /\ tb (king_att f) t = true) \/
   ((p = WR \/ p = BR) /\ tb (rook_att f (aocc g)) t = true) \/ ((p = WB \/ p = BB) /\ tb (bishop_att f (aocc g)) t = true) \/
   ((p = WQ \/ p = BQ) /\ tb (queen_att f (aocc g)) t = true)).

Lemma piece_caps_attack g all opp p att m :
  In m (piece_moves g all opp p att) -> mcap m = true -> tb (bb g p) (mfrom m) = true /\ tb (att (mfrom m)) (mto m) = true /\ mpiece m = p.
Proof.
  intros H CAP. unfold piece_moves in H. apply in_flat_map in H. destruct H as (f & Hf & H). apply in_bits in Hf.
  apply in_app_or in H. destruct H as [H|H].
  - destruct all; [|destruct H]. apply in_map_iff in H. destruct H as (t & <- & _). discriminate.
  - apply in_map_iff in H. destruct H as (t & <- & Ht). apply in_bits in Ht. rewrite land_bit in Ht. apply andb_true_iff in Ht.
    cbn [mfrom mto mpiece mk]. tauto.
Qed.

Theorem generated_captures_attack g all m : In m (generate_moves g all) -> mcap m = true -> mep m = false ->
  attacks g (mpiece m) (mfrom m) (mto m) /\ (mpiece m <? 6) = white g.
Proof.
  intros H CAP EP. unfold generate_moves in H.
  assert (CM : forall r e k c w t kg, In m (castle_move g all r e k c w t kg) -> False).
  { intros r e k c w t kg X. unfold castle_move in X. destruct (_ && _ && _ && _ && _); [|destruct X]. destruct X as [<-|[]]. discriminate. }
  assert (PR : forall f t p q n r b, In m (promos f t p q n r b true) -> mfrom m = f /\ mto m = t /\ mpiece m = p).
  { intros f t p q n r b X. apply in_promos in X. destruct X as [-> | [-> | [-> | ->]]]; repeat split. }
  destruct (white g) eqn:W; repeat (apply in_app_or in H; destruct H as [H|H]); try (exfalso; eapply CM; eassumption).
  - (* white pawns *)
    apply in_flat_map in H. destruct H as (f & Hf & H). apply in_bits in Hf. unfold white_pawn_moves in H. cbn zeta in H.
    apply in_app_or in H. destruct H as [H|H].
    + destruct (all && negb (get_bit (aocc g) (f - 8))); [|destruct H]. destruct (8 <=? f - 8).
      * destruct H as [<-|H]; [discriminate|]. destruct (_ && _); [|destruct H]. destruct H as [<-|[]]. discriminate.
      * apply in_promos in H. destruct H as [-> | [-> | [-> | ->]]]; discriminate.
    + apply in_app_or in H. destruct H as [H|H].
      * destruct (_ && _); [|destruct H]. destruct H as [<-|[]]. discriminate.
      * apply in_flat_map in H. destruct H as (t & Ht & H). apply in_bits in Ht. rewrite land_bit in Ht. apply andb_true_iff in Ht. destruct Ht as [Ht _].
        assert (X : mfrom m = f /\ mto m = t /\ mpiece m = WP).
        { destruct (8 <=? t); [destruct H as [<-|[]]; repeat split|apply (PR _ _ _ _ _ _ _ H)]. }
        destruct X as (-> & -> & ->). split; [|reflexivity]. split; [exact Hf|]. left. split; [reflexivity|exact Ht].
  - destruct (piece_caps_attack _ _ _ _ _ _ H CAP) as (A & B & ->). split; [|reflexivity]. split; [exact A|]. right. right. left. split; [left; reflexivity|exact B].
  - destruct (piece_caps_attack _ _ _ _ _ _ H CAP) as (A & B & ->). split; [|reflexivity]. split; [exact A|]. do 5 right. left. split; [left; reflexivity|exact B].
  - destruct (piece_caps_attack _ _ _ _ _ _ H CAP) as (A & B & ->). split; [|reflexivity]. split; [exact A|]. do 4 right. left. split; [left; reflexivity|exact B].
  - destruct (piece_caps_attack _ _ _ _ _ _ H CAP) as (A & B & ->). split; [|reflexivity]. split; [exact A|]. do 6 right. split; [left; reflexivity|exact B].
  - destruct (piece_caps_attack _ _ _ _ _ _ H CAP) as (A & B & ->). split; [|reflexivity]. split; [exact A|]. do 3 right. left. split; [left; reflexivity|exact B].
  - (* black pawns *)
    apply in_flat_map in H. destruct H as (f & Hf & H). apply in_bits in Hf. unfold black_pawn_moves in H. cbn zeta in H.
    apply in_app_or in H. destruct H as [H|H].
    + destruct (all && negb (get_bit (aocc g) (f + 8))); [|destruct H]. destruct (f + 8 <=? 55).
      * destruct H as [<-|H]; [discriminate|]. destruct (_ && _); [|destruct H]. destruct H as [<-|[]]. discriminate.
      * apply in_promos in H. destruct H as [-> | [-> | [-> | ->]]]; discriminate.
    + apply in_app_or in H. destruct H as [H|H].
      * destruct (_ && _); [|destruct H]. destruct H as [<-|[]]. discriminate.
      * apply in_flat_map in H. destruct H as (t & Ht & H). apply in_bits in Ht. rewrite land_bit in Ht. apply andb_true_iff in Ht. destruct Ht as [Ht _].
        assert (X : mfrom m = f /\ mto m = t /\ mpiece m = BP).
        { destruct (t <=? 55); [destruct H as [<-|[]]; repeat split|apply (PR _ _ _ _ _ _ _ H)]. }
        destruct X as (-> & -> & ->). split; [|reflexivity]. split; [exact Hf|]. right. left. split; [reflexivity|exact Ht].
  - destruct (piece_caps_attack _ _ _ _ _ _ H CAP) as (A & B & ->). split; [|reflexivity]. split; [exact A|]. right. right. left. split; [right; reflexivity|exact B].
  - destruct (piece_caps_attack _ _ _ _ _ _ H CAP) as (A & B & ->). split; [|reflexivity]. split; [exact A|]. do 5 right. left. split; [right; reflexivity|exact B].
  - destruct (piece_caps_attack _ _ _ _ _ _ H CAP) as (A & B & ->). split; [|reflexivity]. split; [exact A|]. do 4 right. left. split; [right; reflexivity|exact B].
  - destruct (piece_caps_attack _ _ _ _ _ _ H CAP) as (A & B & ->). split; [|reflexivity]. split; [exact A|]. do 6 right. split; [right; reflexivity|exact B].
  - destruct (piece_caps_attack _ _ _ _ _ _ H CAP) as (A & B & ->). split; [|reflexivity]. split; [exact A|]. do 3 right. left. split; [right; reflexivity|exact B].
Qed.

Lemma land_ne0 a b s : tb a s = true -> tb b s = true -> negb (N.land a b =? 0) = true.
Proof.
  intros A B. apply negb_true_iff. apply N.eqb_neq. intros Z.
  assert (X : tb (N.land a b) s = false) by (rewrite Z; apply N.bits_0). rewrite land_bit, A, B in X. discriminate.
Qed.

Theorem nk_nkc g all m : cons g -> kings g -> range g -> nk g -> In m (generate_moves g all) -> nkc g m.
Proof.
  intros C (KW & KB) R NK HI CAP EP.
  destruct (tb (bb g (oppK (white g))) (mto m)) eqn:T; [exfalso|reflexivity].
  destruct (generated_captures_attack g all m HI CAP EP) as ((F & A) & COL).
  assert (P12 : mpiece m < 12) by (destruct (white g); [apply N.ltb_lt in COL|apply N.ltb_ge in COL]; destruct A as [[-> _]|[[-> _]|[[[-> | ->] _]|[[[-> | ->] _]|[[[-> | ->] _]|[[[-> | ->] _]|[[-> | ->] _]]]]]]]; reflexivity).
  pose proof (r_sq g R _ _ P12 F) as F64.
  set (f := mfrom m) in *. set (t := mto m) in *. set (p := mpiece m) in *.
  unfold nk, in_check_raw in NK. unfold oppK in T.
  destruct (white g) eqn:W; cbn [negb] in NK.
  - (* white to move: the black king would be attacked by a white man *)
    destruct KB as (k & SK). assert (TK : t = k) by (apply SK; exact T).
    assert (T64 : t < 64) by (apply (r_sq g R BK t); [reflexivity|exact T]).
    fold (bb g BK) in NK. rewrite (single_ls _ k SK) in NK. rewrite <- TK in NK. unfold is_square_attacked in NK. cbn zeta in NK.
    apply N.ltb_lt in COL.
    repeat (apply orb_false_iff in NK; destruct NK as [NK ?]).
    destruct A as [[E A]|[[E A]|[[[E|E] A]|[[[E|E] A]|[[[E|E] A]|[[[E|E] A]|[[E|E] A]]]]]]]; unfold p in *; rewrite E in *; try (cbv in COL; discriminate COL).
    + assert (X : negb (N.land (pawn_att t false) (nthN (bbs g) WP) =? 0) = true)
        by (apply (land_ne0 _ _ f); [apply (pair_check_spec _ _ wpawn_check f t F64 T64 A)|exact F]). congruence.
    + assert (X : negb (N.land (knight_att t) (nthN (bbs g) WN) =? 0) = true)
        by (apply (land_ne0 _ _ f); [apply (pair_check_spec _ _ knight_check f t F64 T64 A)|exact F]). congruence.
    + assert (X : negb (N.land (king_att t) (nthN (bbs g) WK) =? 0) = true)
        by (apply (land_ne0 _ _ f); [apply (pair_check_spec _ _ king_check f t F64 T64 A)|exact F]). congruence.
    + assert (X : negb (N.land (rook_att t (aocc g)) (nthN (bbs g) WR) =? 0) = true)
        by (apply (land_ne0 _ _ f); [apply rook_att_sym; assumption|exact F]). congruence.
    + assert (X : negb (N.land (bishop_att t (aocc g)) (nthN (bbs g) WB) =? 0) = true)
        by (apply (land_ne0 _ _ f); [apply bishop_att_sym; assumption|exact F]). congruence.
    + assert (X : negb (N.land (queen_att t (aocc g)) (nthN (bbs g) WQ) =? 0) = true)
        by (apply (land_ne0 _ _ f); [apply queen_att_sym; assumption|exact F]). congruence.
  - destruct KW as (k & SK). assert (TK : t = k) by (apply SK; exact T).
    assert (T64 : t < 64) by (apply (r_sq g R WK t); [reflexivity|exact T]).
    fold (bb g WK) in NK. rewrite (single_ls _ k SK) in NK. rewrite <- TK in NK. unfold is_square_attacked in NK. cbn zeta in NK.
    apply N.ltb_ge in COL.
    repeat (apply orb_false_iff in NK; destruct NK as [NK ?]).
    destruct A as [[E A]|[[E A]|[[[E|E] A]|[[[E|E] A]|[[[E|E] A]|[[[E|E] A]|[[E|E] A]]]]]]]; unfold p in *; rewrite E in *; try (exfalso; unfold WP, WN, WB, WR, WQ, WK in COL; lia).
    + assert (X : negb (N.land (pawn_att t true) (nthN (bbs g) BP) =? 0) = true)
        by (apply (land_ne0 _ _ f); [apply (pair_check_spec _ _ bpawn_check f t F64 T64 A)|exact F]). congruence.
    + assert (X : negb (N.land (knight_att t) (nthN (bbs g) BN) =? 0) = true)
        by (apply (land_ne0 _ _ f); [apply (pair_check_spec _ _ knight_check f t F64 T64 A)|exact F]). congruence.
    + assert (X : negb (N.land (king_att t) (nthN (bbs g) BK) =? 0) = true)
        by (apply (land_ne0 _ _ f); [apply (pair_check_spec _ _ king_check f t F64 T64 A)|exact F]). congruence.
    + assert (X : negb (N.land (rook_att t (aocc g)) (nthN (bbs g) BR) =? 0) = true)
        by (apply (land_ne0 _ _ f); [apply rook_att_sym; assumption|exact F]). congruence.
    + assert (X : negb (N.land (bishop_att t (aocc g)) (nthN (bbs g) BB) =? 0) = true)
        by (apply (land_ne0 _ _ f); [apply bishop_att_sym; assumption|exact F]). congruence.
    + assert (X : negb (N.land (queen_att t (aocc g)) (nthN (bbs g) BQ) =? 0) = true)
        by (apply (land_ne0 _ _ f); [apply queen_att_sym; assumption|exact F]). congruence.
Qed.

(* ---- everything together: the invariant of the positions a search examines ---- *)
Definition legal_inv (g : game) : Prop := cons g /\ kings g /\ range g /\ nk g /\ keyok g.

Theorem legal_step g all m g' : legal_inv g -> In m (generate_moves g all) -> c_make g m = Some g' -> legal_inv g'.
Proof.
  intros (C & KG & R & NK & KO) HI M. unfold c_make in M. destruct (make_search_move g m) as [|g''|] eqn:E; try discriminate. injection M as ->.
  pose proof (nk_nkc g all m C KG R NK HI) as NKC.
  pose proof (generated_moves_ok g C all m HI NKC) as OK.
  pose proof (generated_promo_sane g all m HI) as PS.
  split; [exact (make_cons g m g' C OK E)|]. split; [exact (make_kings g m g' C OK PS E KG)|].
  split; [exact (make_range g m g' C R OK (generated_rng g C R all m HI) E)|].
  split; [exact (make_nk g m g' C KG OK PS E)|exact (make_keyok_generated g all m g' C KO HI E)].
Qed.

Theorem legal_pass g : legal_inv g -> is_in_check g (white g) = false -> legal_inv (null_move g).
Proof.
  intros (C & KG & R & NK & KO) IC.
  split; [apply null_move_cons; exact C|]. split; [exact KG|].
  split; [constructor; [apply (r_sq g R)|apply (r_bp g R)|apply (r_wp g R)|intros X; exfalso; apply X; reflexivity]|].
  split; [|apply null_move_keyok; exact KO].
  unfold nk, null_move. cbn [bbs aocc white]. rewrite negb_involutive. exact IC.
Qed.

(* the reachability relation of the search-trace theorem (Proofs/SearchNodes.v), instantiated with chess *)
Definition chess_reach := reach game move generate_moves c_make null_move (fun g => is_in_check g (white g)).

Theorem reach_legal g0 g : legal_inv g0 -> chess_reach g0 g -> legal_inv g.
Proof.
  intros L0 R. induction R as [|g all m g' R IH HI M|g R IH IC].
  - exact L0.
  - eapply legal_step; eassumption.
  - apply legal_pass; assumption.
Qed.
Print Assumptions reach_legal.
