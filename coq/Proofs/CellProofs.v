(* The 64-cell view of a consistent position: which man stands on a square, and how take / put change it. *)
From Coq Require Import NArith ZArith List Bool Lia.
From JV Require Import Gen.Consts Model.Bits Model.Chess Model.Abs Spec.ChessSpec Proofs.BitboardProofs Proofs.MoveGenProofs Proofs.ZobristProofs
  Proofs.KeyProofs Proofs.GenProofs Proofs.ConsProofs.
Import ListNotations.
Local Open Scope N_scope.

(* the man index on square i of a state: the first set among the 12 sets *)
Definition who (x : st) (i : N) : option N := find (fun p => sb x p i) PIECES.

Lemma who_cell g i : cell g i = option_map piece_of (who (st_of g) i).
Proof. unfold cell, who, PIECES. unfold sb, st_of, get_bit, tb, bb. cbn [s_bs]. destruct (find _ _); reflexivity. Qed.

Lemma who_some x i p : consB x -> p < 12 -> sb x p i = true -> who x i = Some p.
Proof.
  intros C P T. unfold who. destruct (find (fun q => sb x q i) PIECES) as [q|] eqn:F.
  - apply find_some in F. destruct F as (Q & TQ). f_equal. destruct (N.eq_dec q p) as [E|NE]; [exact E|].
    assert (Q12 : q < 12) by (unfold PIECES in Q; cbn in Q; repeat (destruct Q as [<-|Q]; [reflexivity|]); destruct Q).
    pose proof (b_disj x C q p i Q12 P NE TQ). congruence.
  - exfalso. pose proof (find_none _ _ F p (PIECES_in p P)) as X. cbn beta in X. congruence.
Qed.

Lemma who_none x i : (forall p, p < 12 -> sb x p i = false) -> who x i = None.
Proof.
  intros HN. unfold who. destruct (find (fun q => sb x q i) PIECES) as [q|] eqn:F; [|reflexivity].
  apply find_some in F. destruct F as (Q & TQ).
  assert (Q12 : q < 12) by (unfold PIECES in Q; cbn in Q; repeat (destruct Q as [<-|Q]; [reflexivity|]); destruct Q).
  rewrite (HN q Q12) in TQ. discriminate.
Qed.

Lemma who_inv x i p : who x i = Some p -> p < 12 /\ sb x p i = true.
Proof.
  unfold who. intros F. apply find_some in F. destruct F as (Q & TQ). split; [|exact TQ].
  unfold PIECES in Q. cbn in Q. repeat (destruct Q as [<-|Q]; [reflexivity|]). destruct Q.
Qed.

Lemma who_take x p s i : consB x -> p < 12 -> sb x p s = true -> who (take x p s) i = if i =? s then None else who x i.
Proof.
  intros C P T. pose proof (take_ok x p s C P T) as C'.
  destruct (N.eqb_spec i s) as [->|NE].
  - apply who_none. intros q Q. rewrite sb_take by assumption. destruct (N.eqb_spec q p) as [->|NQ].
    + rewrite N.eqb_refl. apply andb_false_r.
    + apply (b_disj x C p q s); [exact P|exact Q|congruence|exact T].
  - destruct (who x i) as [q|] eqn:W.
    + destruct (who_inv x i q W) as (Q & TQ). apply (who_some _ i q C' Q). rewrite sb_take by assumption.
      destruct (q =? p); [rewrite TQ; destruct (N.eqb_spec s i); [congruence|reflexivity]|exact TQ].
    + apply who_none. intros q Q. rewrite sb_take by assumption.
      assert (X : sb x q i = false).
      { destruct (sb x q i) eqn:E; [|reflexivity]. rewrite (who_some x i q C Q E) in W. discriminate. }
      rewrite X. destruct (q =? p); reflexivity.
Qed.

Lemma who_put x p s i : consB x -> p < 12 -> tb (s_ao x) s = false -> who (put x p s) i = if i =? s then Some p else who x i.
Proof.
  intros C P A. pose proof (put_ok x p s C P A) as C'.
  destruct (N.eqb_spec i s) as [->|NE].
  - apply (who_some _ s p C' P). rewrite sb_put by assumption. rewrite !N.eqb_refl. apply orb_true_r.
  - destruct (who x i) as [q|] eqn:W.
    + destruct (who_inv x i q W) as (Q & TQ). apply (who_some _ i q C' Q). rewrite sb_put by assumption.
      destruct (q =? p); [rewrite TQ; reflexivity|exact TQ].
    + apply who_none. intros q Q. rewrite sb_put by assumption.
      assert (X : sb x q i = false).
      { destruct (sb x q i) eqn:E; [|reflexivity]. rewrite (who_some x i q C Q E) in W. discriminate. }
      rewrite X. destruct (q =? p); [destruct (N.eqb_spec s i); [congruence|reflexivity]|reflexivity].
Qed.

(* pointwise-equal states have the same men *)
Lemma who_ext x y i : st_eq x y -> who x i = who y i.
Proof.
  intros E. unfold who. induction PIECES as [|p r IH]; cbn [find]; [reflexivity|].
  rewrite (e_bs x y E). destruct (sb y p i); [reflexivity|exact IH].
Qed.
