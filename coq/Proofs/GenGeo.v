(* The geometry of generated pawn and king moves (what the specification's is_ep / is_castle / double-push tests look at). *)
From Coq Require Import NArith ZArith List Bool Lia.
From JV Require Import Gen.Consts Spec.Rays Model.Bits Model.Chess Model.Abs Proofs.BitboardProofs Proofs.MoveGenProofs
  Proofs.ZobristProofs Proofs.KeyProofs Proofs.GenProofs Proofs.ConsProofs Proofs.GenOk Proofs.KingsProofs Proofs.RangeProofs.
Import ListNotations.
Local Open Scope N_scope.

Record move_geo (g : game) (m : move) : Prop := mkGeo {
  mg_push : (mpiece m = WP \/ mpiece m = BP) -> mcap m = false ->
            (mdp m = false /\ (if white g then mfrom m = mto m + 8 else mto m = mfrom m + 8)) \/
            (mdp m = true /\ (if white g then mfrom m = mto m + 16 else mto m = mfrom m + 16));
  mg_pcap : (mpiece m = WP \/ mpiece m = BP) -> mcap m = true -> tb (pawn_att (mfrom m) (white g)) (mto m) = true;
  mg_king : (mpiece m = WK \/ mpiece m = BK) -> mcastle m = false -> tb (king_att (mfrom m)) (mto m) = true;
  mg_promo : mpromo m <> NOPIECE -> mpromo m <> WP /\ mpromo m <> BP /\ mpromo m <> WK /\ mpromo m <> BK /\ mpromo m < 12;
  mg_dp : mdp m = true -> mpiece m = WP \/ mpiece m = BP;
  mg_ep : mep m = true -> mto m = ep g /\ ep g <> NOSQ }.

Lemma geo_piece g f t p cap : p <> WP -> p <> BP -> (p = WK \/ p = BK -> tb (king_att f) t = true) ->
  move_geo g (mk f t p NOPIECE cap false false false).
Proof.
  intros N1 N2 KA. constructor; cbn [mfrom mto mpiece mpromo mcap mep mdp mcastle mk]; try discriminate.
  - intros [X|X]; congruence.
  - intros [X|X]; congruence.
  - intros X _. apply KA. exact X.
  - intros X. exfalso. apply X. reflexivity.
Qed.

Lemma piece_moves_geo g all opp p att m : p <> WP -> p <> BP -> (p = WK \/ p = BK -> att = king_att) ->
  In m (piece_moves g all opp p att) -> move_geo g m.
Proof.
  intros N1 N2 KA H. unfold piece_moves in H. apply in_flat_map in H. destruct H as (f & _ & H). apply in_app_or in H. destruct H as [H|H].
  - destruct all; [|destruct H]. apply in_map_iff in H. destruct H as (t & <- & Ht). apply geo_piece; try assumption.
    intros X. rewrite (KA X) in Ht. apply in_bits in Ht. rewrite land_bit in Ht. apply andb_true_iff in Ht. tauto.
  - apply in_map_iff in H. destruct H as (t & <- & Ht). apply geo_piece; try assumption.
    intros X. rewrite (KA X) in Ht. apply in_bits in Ht. rewrite land_bit in Ht. apply andb_true_iff in Ht. tauto.
Qed.

(* a pawn move: quiet (single / double) or capture, with or without promotion *)
Lemma geo_pawn g f t p pr cap dp e :
  (p = WP \/ p = BP) ->
  (pr = NOPIECE \/ (pr <> WP /\ pr <> BP /\ pr <> WK /\ pr <> BK /\ pr < 12)) ->
  (cap = false -> (dp = false /\ (if white g then f = t + 8 else t = f + 8)) \/ (dp = true /\ (if white g then f = t + 16 else t = f + 16))) ->
  (cap = true -> tb (pawn_att f (white g)) t = true) ->
  (e = true -> t = ep g /\ ep g <> NOSQ) ->
  move_geo g (mk f t p pr cap dp e false).
Proof.
  intros PP PR PQ PC PE. constructor; cbn [mfrom mto mpiece mpromo mcap mep mdp mcastle mk]; [| | | | |exact PE].
  - intros _ X. exact (PQ X).
  - intros _ X. exact (PC X).
  - intros [X|X] _; destruct PP; unfold WP, BP, WK, BK in *; congruence.
  - intros X. destruct PR as [Y|Y]; [contradiction|exact Y].
  - intros _. exact PP.
Qed.

Section Geo.
Variable g : game.
Hypothesis C : cons g.
Hypothesis R : range g.

Lemma promos_geo m f t p q n r b cap : (p = WP \/ p = BP) ->
  (forall x, In x [q; n; r; b] -> x <> WP /\ x <> BP /\ x <> WK /\ x <> BK /\ x < 12) ->
  (cap = false -> if white g then f = t + 8 else t = f + 8) ->
  (cap = true -> tb (pawn_att f (white g)) t = true) ->
  In m (promos f t p q n r b cap) -> move_geo g m.
Proof.
  intros PP OKP PQ PC H. apply in_promos in H.
  destruct H as [-> | [-> | [-> | ->]]]; (apply geo_pawn; [exact PP|right; apply OKP; cbn; auto|intros X; left; split; [reflexivity|exact (PQ X)]|exact PC|discriminate]).
Qed.

Theorem generated_geo all m : In m (generate_moves g all) -> move_geo g m.
Proof.
  intros H. unfold generate_moves in H.
  assert (CM : forall r e k c w t kg, kg <> WP -> kg <> BP -> In m (castle_move g all r e k c w t kg) -> move_geo g m).
  { intros r e k c w t kg N1 N2 X. unfold castle_move in X. destruct (_ && _ && _ && _ && _); [|destruct X]. destruct X as [<-|[]].
    constructor; cbn [mfrom mto mpiece mpromo mcap mep mdp mcastle mk]; try discriminate; try (intros [X|X]; congruence).
    intros X. exfalso. apply X. reflexivity. }
  assert (WPR : forall x, In x [WQ; WN; WR; WB] -> x <> WP /\ x <> BP /\ x <> WK /\ x <> BK /\ x < 12)
    by (intros x [<-|[<-|[<-|[<-|[]]]]]; repeat split; try discriminate; reflexivity).
  assert (BPR : forall x, In x [BQ; BN; BR; BB] -> x <> WP /\ x <> BP /\ x <> WK /\ x <> BK /\ x < 12)
    by (intros x [<-|[<-|[<-|[<-|[]]]]]; repeat split; try discriminate; reflexivity).
  assert (PMN : forall opp p att, p <> WP -> p <> BP -> p <> WK -> p <> BK -> In m (piece_moves g all opp p att) -> move_geo g m).
  { intros opp p att N1 N2 N3 N4 X. apply (piece_moves_geo g all opp p att m N1 N2); [intros [Y|Y]; contradiction|exact X]. }
  assert (PMK : forall opp p, p <> WP -> p <> BP -> In m (piece_moves g all opp p king_att) -> move_geo g m).
  { intros opp p N1 N2 X. apply (piece_moves_geo g all opp p king_att m N1 N2); [reflexivity|exact X]. }
  destruct (white g) eqn:W; repeat (apply in_app_or in H; destruct H as [H|H]);
    first [ refine (CM _ _ _ _ _ _ _ _ _ H); unfold WK, BK, WP, BP; lia
          | refine (PMN _ _ _ _ _ _ _ H); unfold WN, WB, WR, WQ, BN, BB, BR, BQ, WK, BK, WP, BP; lia
          | refine (PMK _ _ _ _ H); unfold WK, BK, WP, BP; lia
          | idtac ].
  - (* white pawns *)
    apply in_flat_map in H. destruct H as (f & Hf & H). apply in_bits in Hf. pose proof (r_wp g R f Hf) as F8.
    unfold white_pawn_moves in H. cbn zeta in H. apply in_app_or in H. destruct H as [H|H].
    + destruct (all && negb (get_bit (aocc g) (f - 8))); [|destruct H]. destruct (8 <=? f - 8).
      * destruct H as [<-|H].
        -- apply geo_pawn; [left; reflexivity|left; reflexivity| |discriminate|discriminate]. intros _. left. split; [reflexivity|]. rewrite W. lia.
        -- destruct (negb (get_bit (aocc g) (f - 8 - 8)) && (f / 8 =? 6)) eqn:D; [|destruct H]. destruct H as [<-|[]].
           apply andb_true_iff in D. destruct D as [_ D6]. apply N.eqb_eq in D6.
           assert (F48 : 48 <= f). { pose proof (N.div_mod f 8 ltac:(lia)) as X. rewrite D6 in X. revert X. generalize (f mod 8). clear. intros r X. lia. }
           apply geo_pawn; [left; reflexivity|left; reflexivity| |discriminate|discriminate]. intros _. right. split; [reflexivity|]. rewrite W. lia.
      * apply (promos_geo m f (f - 8) WP WQ WN WR WB false); [left; reflexivity|exact WPR| |discriminate|exact H]. intros _. rewrite W. lia.
    + apply in_app_or in H. destruct H as [H|H].
      * destruct (negb (ep g =? NOSQ) && negb (N.land (pawn_att f true) (bit (ep g)) =? 0)) eqn:E; [|destruct H]. destruct H as [<-|[]].
        apply andb_true_iff in E. destruct E as [E0 E]. apply negb_true_iff, N.eqb_neq in E. apply land_nonzero_bit in E. apply negb_true_iff, N.eqb_neq in E0.
        apply geo_pawn; [left; reflexivity|left; reflexivity|discriminate| |intros _; split; [reflexivity|exact E0]]. intros _. rewrite W. exact E.
      * apply in_flat_map in H. destruct H as (t & Ht & H). apply in_bits in Ht. rewrite land_bit in Ht. apply andb_true_iff in Ht. destruct Ht as [Ht _].
        destruct (8 <=? t).
        -- destruct H as [<-|[]]. apply geo_pawn; [left; reflexivity|left; reflexivity|discriminate| |discriminate]. intros _. rewrite W. exact Ht.
        -- apply (promos_geo m f t WP WQ WN WR WB true); [left; reflexivity|exact WPR|discriminate| |exact H]. intros _. rewrite W. exact Ht.
  - (* black pawns *)
    apply in_flat_map in H. destruct H as (f & Hf & H). apply in_bits in Hf.
    unfold black_pawn_moves in H. cbn zeta in H. apply in_app_or in H. destruct H as [H|H].
    + destruct (all && negb (get_bit (aocc g) (f + 8))); [|destruct H]. destruct (f + 8 <=? 55).
      * destruct H as [<-|H].
        -- apply geo_pawn; [right; reflexivity|left; reflexivity| |discriminate|discriminate]. intros _. left. split; [reflexivity|]. rewrite W. reflexivity.
        -- destruct (_ && _); [|destruct H]. destruct H as [<-|[]].
           apply geo_pawn; [right; reflexivity|left; reflexivity| |discriminate|discriminate]. intros _. right. split; [reflexivity|]. rewrite W. lia.
      * apply (promos_geo m f (f + 8) BP BQ BN BR BB false); [right; reflexivity|exact BPR| |discriminate|exact H]. intros _. rewrite W. reflexivity.
    + apply in_app_or in H. destruct H as [H|H].
      * destruct (negb (ep g =? NOSQ) && negb (N.land (pawn_att f false) (bit (ep g)) =? 0)) eqn:E; [|destruct H]. destruct H as [<-|[]].
        apply andb_true_iff in E. destruct E as [E0 E]. apply negb_true_iff, N.eqb_neq in E. apply land_nonzero_bit in E. apply negb_true_iff, N.eqb_neq in E0.
        apply geo_pawn; [right; reflexivity|left; reflexivity|discriminate| |intros _; split; [reflexivity|exact E0]]. intros _. rewrite W. exact E.
      * apply in_flat_map in H. destruct H as (t & Ht & H). apply in_bits in Ht. rewrite land_bit in Ht. apply andb_true_iff in Ht. destruct Ht as [Ht _].
        destruct (t <=? 55).
        -- destruct H as [<-|[]]. apply geo_pawn; [right; reflexivity|left; reflexivity|discriminate| |discriminate]. intros _. rewrite W. exact Ht.
        -- apply (promos_geo m f t BP BQ BN BR BB true); [right; reflexivity|exact BPR|discriminate| |exact H]. intros _. rewrite W. exact Ht.
Qed.
End Geo.
Print Assumptions generated_geo.
