(* C16, colour symmetry: the colour-mirrored position (board flipped top to bottom, colours and mover swapped) has the same
   evaluation -- for every position whose men stand on board squares (range). *)
From Coq Require Import NArith ZArith List Bool Lia Permutation.
From JV Require Import Gen.Consts Spec.Rays Model.Bits Model.Chess Model.Eval Model.Sym Proofs.BitsProofs Proofs.BitboardProofs Proofs.KeyProofs Proofs.GenProofs
  Proofs.RangeProofs Proofs.AttackSym Proofs.AbsBase Proofs.NoDupGen Proofs.CountProofs Proofs.EvalProofs Proofs.EvalBound.
Import ListNotations.
Local Open Scope N_scope.

(* ---- flipping a set of squares top to bottom ---- *)

Lemma msq_invol s : msq (msq s) = s.
Proof. unfold msq. rewrite N.lxor_assoc, N.lxor_nilpotent, N.lxor_0_r. reflexivity. Qed.
Lemma msq_lt_check : forallb (fun s => msq s <? 64) (seqN 0 64) = true. Proof. vm_compute. reflexivity. Qed.
Lemma msq_lt s : s < 64 -> msq s < 64.
Proof. intros L. apply N.ltb_lt. apply (all64 _ msq_lt_check s L). Qed.
Lemma msq_lt_inv s : msq s < 64 -> s < 64.
Proof. intros L. rewrite <- (msq_invol s). apply msq_lt. exact L. Qed.
Lemma msq_inj a b : msq a = msq b -> a = b.
Proof. intros E. rewrite <- (msq_invol a), E. apply msq_invol. Qed.

Definition below64 (b : N) : Prop := forall s, tb b s = true -> s < 64.

Lemma tb_fold_set (f : N -> N) l : forall a t, tb (fold_left (fun acc s => set_bit acc (f s)) l a) t = tb a t || existsb (fun s => f s =? t) l.
Proof.
  induction l as [|x l IH]; intros a t; cbn [fold_left existsb]; [rewrite orb_false_r; reflexivity|].
  rewrite IH. unfold tb. rewrite testbit_set_bit. rewrite orb_assoc. reflexivity.
Qed.

Lemma tb_flipv b t : below64 b -> tb (flipv b) t = (t <? 64) && tb b (msq t).
Proof.
  intros B. unfold flipv. rewrite tb_fold_set. unfold tb at 1. rewrite N.bits_0. cbn [orb].
  apply eq_true_iff_eq. rewrite existsb_exists, andb_true_iff. split.
  - intros (s & Hs & E). apply N.eqb_eq in E. apply bits_of_spec in Hs. subst t. split; [apply N.ltb_lt; apply msq_lt; apply B; exact Hs|].
    rewrite msq_invol. exact Hs.
  - intros (L & T). exists (msq t). split; [apply bits_of_spec; exact T|]. rewrite msq_invol. apply N.eqb_refl.
Qed.

Lemma flipv_below b : below64 b -> below64 (flipv b).
Proof. intros B s H. rewrite (tb_flipv b s B) in H. apply andb_true_iff in H. apply N.ltb_lt. tauto. Qed.

Lemma flipv_perm b : below64 b -> Permutation (bits_of (flipv b)) (map msq (bits_of b)).
Proof.
  intros B. apply NoDup_Permutation.
  - apply bits_of_nodup.
  - apply NoDup_map'; [intros x y; apply msq_inj|apply bits_of_nodup].
  - intros s. rewrite bits_of_spec. fold (tb (flipv b) s). rewrite (tb_flipv b s B). rewrite in_map_iff. split.
    + intros H. apply andb_true_iff in H. destruct H as [_ H]. exists (msq s). split; [apply msq_invol|apply bits_of_spec; exact H].
    + intros (x & E & H). apply bits_of_spec in H. subst s. rewrite msq_invol. apply andb_true_iff. split; [apply N.ltb_lt; apply msq_lt; apply B; exact H|exact H].
Qed.

Lemma flipv_cnt b : below64 b -> cnt (flipv b) = cnt b.
Proof. intros B. unfold cnt. rewrite (Permutation_length (flipv_perm b B)). apply map_length. Qed.

Lemma below_land_l a b : below64 a -> below64 (N.land a b).
Proof. intros A s H. rewrite land_bit in H. apply andb_true_iff in H. apply A. tauto. Qed.

Lemma flipv_land a b : below64 a -> below64 b -> flipv (N.land a b) = N.land (flipv a) (flipv b).
Proof.
  intros A B. apply N.bits_inj. intros t. fold (tb (flipv (N.land a b)) t). fold (tb (N.land (flipv a) (flipv b)) t).
  rewrite land_bit, (tb_flipv _ t (below_land_l a b A)), (tb_flipv a t A), (tb_flipv b t B), land_bit.
  destruct (t <? 64); [reflexivity|]. reflexivity.
Qed.

Lemma below_zero b : below64 b -> (forall s, s < 64 -> tb b s = false) -> b = 0.
Proof.
  intros B Z. apply N.bits_inj. intros s. rewrite N.bits_0. destruct (N.testbit b s) eqn:T; [|reflexivity].
  fold (tb b s) in T. rewrite (Z s (B s T)) in T. discriminate.
Qed.
Lemma flipv_zero b : below64 b -> (flipv b =? 0) = (b =? 0).
Proof.
  intros B. apply eq_true_iff_eq. rewrite !N.eqb_eq. split.
  - intros Z. apply (below_zero b B). intros s L. pose proof (tb_flipv b (msq s) B) as X. rewrite Z, msq_invol in X. unfold tb at 1 in X. rewrite N.bits_0 in X.
    replace (msq s <? 64) with true in X by (symmetry; apply N.ltb_lt; apply msq_lt; exact L). symmetry. exact X.
  - intros ->. reflexivity.
Qed.
Lemma flipv_pop b : below64 b -> pop_count (flipv b) = pop_count b.
Proof. intros B. unfold pop_count. fold (cnt (flipv b)). fold (cnt b). rewrite (flipv_cnt b B). reflexivity. Qed.

(* ---- the tables under the flip: evaluation over the 64 squares ---- *)
Definition tabm_ok (sq : N) : bool :=
  let m := msq sq in
  (nthN MIRRORED sq =? m) &&
  (nthN FILE_MASKS m =? flipv (nthN FILE_MASKS sq)) && (nthN ISOLATED_MASKS m =? flipv (nthN ISOLATED_MASKS sq)) &&
  (knight_att m =? flipv (knight_att sq)) && (king_att m =? flipv (king_att sq)) &&
  (nthZ PASSED_WHITE_PAWN_BONUS (nthN LOOKUP_RANK m) =? nthZ PASSED_BLACK_PAWN_BONUS (nthN LOOKUP_RANK sq))%Z &&
  (nthZ PASSED_BLACK_PAWN_BONUS (nthN LOOKUP_RANK m) =? nthZ PASSED_WHITE_PAWN_BONUS (nthN LOOKUP_RANK sq))%Z &&
  (nthN FILE_MASKS sq <? 2 ^ 64) && (nthN ISOLATED_MASKS sq <? 2 ^ 64) && (nthN WHITE_PASSED_PAWN_MASKS sq <? 2 ^ 64) && (nthN BLACK_PASSED_PAWN_MASKS sq <? 2 ^ 64).
Lemma tabm_check : forallb tabm_ok (seqN 0 64) = true. Proof. vm_compute. reflexivity. Qed.

(* ---- sliders under the flip ---- *)
Definition fd (d : Z * Z) : Z * Z := ((- fst d)%Z, snd d).
Fixpoint leqb (a b : list N) : bool := match a, b with [], [] => true | x :: a', y :: b' => (x =? y) && leqb a' b' | _, _ => false end.
Lemma leqb_eq a : forall b, leqb a b = true -> a = b.
Proof. induction a as [|x a IH]; intros [|y b] H; try discriminate; [reflexivity|]. cbn in H. apply andb_true_iff in H. destruct H as [E H]. apply N.eqb_eq in E. rewrite E, (IH b H). reflexivity. Qed.
Definition ray_mirror_ok : bool :=
  forallb (fun s => forallb (fun d => leqb (rayl (msq s) (fd d)) (map msq (rayl s d))) (rook_dirs ++ bishop_dirs)) (seqN 0 64).
Lemma ray_mirror_check : ray_mirror_ok = true. Proof. vm_compute. reflexivity. Qed.
Lemma ray_m s d : s < 64 -> In d (rook_dirs ++ bishop_dirs) -> rayl (msq s) (fd d) = map msq (rayl s d).
Proof.
  intros L D. pose proof ray_mirror_check as X. unfold ray_mirror_ok in X. rewrite forallb_forall in X. specialize (X s (in_seqN64 s L)).
  rewrite forallb_forall in X. apply leqb_eq. apply X. exact D.
Qed.
Lemma ray_lt s d x : s < 64 -> In d (rook_dirs ++ bishop_dirs) -> In x (rayl s d) -> x < 64.
Proof.
  intros L D H. pose proof rays_check as X. unfold rays_in_range in X. rewrite forallb_forall in X. specialize (X s (in_seqN64 s L)).
  rewrite forallb_forall in X. specialize (X d D). rewrite forallb_forall in X. apply N.ltb_lt. apply X. exact H.
Qed.

Lemma reachl_mirror occ t l : below64 occ -> t < 64 -> (forall x, In x l -> x < 64) -> reachl (map msq l) (flipv occ) (msq t) = reachl l occ t.
Proof.
  intros B T. induction l as [|x l IH]; intros R; [reflexivity|]. cbn [map reachl].
  rewrite IH by (intros y Hy; apply R; right; exact Hy).
  assert (E1 : (msq x =? msq t) = (x =? t)) by (destruct (N.eqb_spec x t) as [->|NE]; [apply N.eqb_refl|apply N.eqb_neq; intros E; apply NE; apply msq_inj; exact E]).
  assert (E2 : N.testbit (flipv occ) (msq x) = N.testbit occ x).
  { fold (tb (flipv occ) (msq x)). rewrite (tb_flipv occ (msq x) B), msq_invol.
    replace (msq x <? 64) with true by (symmetry; apply N.ltb_lt; apply msq_lt; apply R; left; reflexivity). reflexivity. }
  rewrite E1, E2. reflexivity.
Qed.

Lemma reach_m s d occ t : s < 64 -> t < 64 -> below64 occ -> In d (rook_dirs ++ bishop_dirs) ->
  reachl (rayl (msq s) (fd d)) (flipv occ) (msq t) = reachl (rayl s d) occ t.
Proof. intros S T B D. rewrite (ray_m s d S D). apply reachl_mirror; [exact B|exact T|intros x; apply (ray_lt s d x S D)]. Qed.

Lemma rook_mirror_bit s occ t : s < 64 -> t < 64 -> below64 occ -> tb (rook_att (msq s) (flipv occ)) (msq t) = tb (rook_att s occ) t.
Proof.
  intros S T B. unfold tb, rook_att. rewrite !slide_reach. unfold rook_dirs. cbn [existsb].
  change (0, -1)%Z with (fd (0, -1)%Z) at 1. change (0, 1)%Z with (fd (0, 1)%Z) at 1. change (-1, 0)%Z with (fd (1, 0)%Z) at 1. change (1, 0)%Z with (fd (-1, 0)%Z) at 2.
  rewrite !(reach_m s _ occ t S T B) by (cbn; auto 10).
  destruct (reachl (rayl s (0, -1)%Z) occ t), (reachl (rayl s (0, 1)%Z) occ t), (reachl (rayl s (1, 0)%Z) occ t), (reachl (rayl s (-1, 0)%Z) occ t); reflexivity.
Qed.
Lemma bishop_mirror_bit s occ t : s < 64 -> t < 64 -> below64 occ -> tb (bishop_att (msq s) (flipv occ)) (msq t) = tb (bishop_att s occ) t.
Proof.
  intros S T B. unfold tb, bishop_att. rewrite !slide_reach. unfold bishop_dirs. cbn [existsb].
  change (1, 1)%Z with (fd (-1, 1)%Z) at 1. change (1, -1)%Z with (fd (-1, -1)%Z) at 1. change (-1, -1)%Z with (fd (1, -1)%Z) at 2. change (-1, 1)%Z with (fd (1, 1)%Z) at 2.
  rewrite !(reach_m s _ occ t S T B) by (cbn; auto 10).
  destruct (reachl (rayl s (-1, 1)%Z) occ t), (reachl (rayl s (-1, -1)%Z) occ t), (reachl (rayl s (1, -1)%Z) occ t), (reachl (rayl s (1, 1)%Z) occ t); reflexivity.
Qed.

(* passed-pawn masks: equal under the flip on the ranks where pawns can stand (the engine's RANK_MASKS table is constant, so the
   masks differ on the back ranks -- where no pawn of a legal position stands) *)
Definition PR : N := 0x00ffffffffffff00.
Definition passed_ok (sq : N) : bool :=
  implb ((8 <=? sq) && (sq <? 56))
    ((N.land (flipv (nthN WHITE_PASSED_PAWN_MASKS (msq sq))) PR =? N.land (nthN BLACK_PASSED_PAWN_MASKS sq) PR) &&
     (N.land (flipv (nthN BLACK_PASSED_PAWN_MASKS (msq sq))) PR =? N.land (nthN WHITE_PASSED_PAWN_MASKS sq) PR) && N.testbit PR sq).
Lemma passed_check : forallb passed_ok (seqN 0 64) = true. Proof. vm_compute. reflexivity. Qed.

(* ---- more algebra ---- *)
Lemma flipv_invol b : below64 b -> flipv (flipv b) = b.
Proof.
  intros B. apply N.bits_inj. intros t. fold (tb (flipv (flipv b)) t). fold (tb b t).
  rewrite (tb_flipv _ t (flipv_below b B)). destruct (N.ltb_spec t 64) as [L|G]; cbn [andb].
  - rewrite (tb_flipv b (msq t) B), msq_invol. replace (msq t <? 64) with true by (symmetry; apply N.ltb_lt; apply msq_lt; exact L). reflexivity.
  - destruct (tb b t) eqn:T; [|reflexivity]. pose proof (B t T). lia.
Qed.
Lemma below_lor a b : below64 a -> below64 b -> below64 (N.lor a b).
Proof. intros A B s H. unfold tb in H. rewrite N.lor_spec in H. apply orb_true_iff in H. destruct H as [H|H]; [apply A|apply B]; exact H. Qed.
Lemma flipv_lor a b : below64 a -> below64 b -> flipv (N.lor a b) = N.lor (flipv a) (flipv b).
Proof.
  intros A B. apply N.bits_inj. intros t. fold (tb (flipv (N.lor a b)) t). rewrite N.lor_spec. fold (tb (flipv a) t). fold (tb (flipv b) t).
  rewrite (tb_flipv _ t (below_lor a b A B)), (tb_flipv a t A), (tb_flipv b t B). unfold tb. rewrite N.lor_spec. destruct (t <? 64); reflexivity.
Qed.
Lemma below_mask m : m < 2 ^ 64 -> below64 m.
Proof. intros L s T. apply (below_pow m 64 s L T). Qed.

Lemma rook_flip s occ : s < 64 -> below64 occ -> rook_att (msq s) (flipv occ) = flipv (rook_att s occ).
Proof.
  intros S B. assert (BR : below64 (rook_att s occ)) by (intros t; apply rook_lt; exact S).
  apply N.bits_inj. intros t. fold (tb (rook_att (msq s) (flipv occ)) t). fold (tb (flipv (rook_att s occ)) t). rewrite (tb_flipv _ t BR).
  destruct (N.ltb_spec t 64) as [L|G]; cbn [andb].
  - rewrite <- (msq_invol t) at 1. apply rook_mirror_bit; [exact S|apply msq_lt; exact L|exact B].
  - destruct (tb (rook_att (msq s) (flipv occ)) t) eqn:T; [|reflexivity]. pose proof (rook_lt (msq s) _ t (msq_lt s S) T). lia.
Qed.
Lemma bishop_flip s occ : s < 64 -> below64 occ -> bishop_att (msq s) (flipv occ) = flipv (bishop_att s occ).
Proof.
  intros S B. assert (BR : below64 (bishop_att s occ)) by (intros t; apply bishop_lt; exact S).
  apply N.bits_inj. intros t. fold (tb (bishop_att (msq s) (flipv occ)) t). fold (tb (flipv (bishop_att s occ)) t). rewrite (tb_flipv _ t BR).
  destruct (N.ltb_spec t 64) as [L|G]; cbn [andb].
  - rewrite <- (msq_invol t) at 1. apply bishop_mirror_bit; [exact S|apply msq_lt; exact L|exact B].
  - destruct (tb (bishop_att (msq s) (flipv occ)) t) eqn:T; [|reflexivity]. pose proof (bishop_lt (msq s) _ t (msq_lt s S) T). lia.
Qed.
Lemma queen_flip s occ : s < 64 -> below64 occ -> queen_att (msq s) (flipv occ) = flipv (queen_att s occ).
Proof.
  intros S B. unfold queen_att. rewrite (rook_flip s occ S B), (bishop_flip s occ S B). symmetry. apply flipv_lor; intros t; [apply rook_lt|apply bishop_lt]; exact S.
Qed.

(* ---- the components of eval_piece under the flip ---- *)
Section Comp.
Variable s : N.
Hypothesis S : s < 64.

Lemma tabm : tabm_ok s = true. Proof. apply (all64 _ tabm_check s S). Qed.
Ltac tabs := pose proof tabm as TB; unfold tabm_ok in TB; cbn zeta in TB;
  repeat (let Y := fresh "T" in apply andb_true_iff in TB; destruct TB as [TB Y]).

Lemma mirrored_eq : nthN MIRRORED s = msq s. Proof. tabs. apply N.eqb_eq. exact TB. Qed.
Lemma file_eq : nthN FILE_MASKS (msq s) = flipv (nthN FILE_MASKS s). Proof. tabs. apply N.eqb_eq. assumption. Qed.
Lemma iso_eq : nthN ISOLATED_MASKS (msq s) = flipv (nthN ISOLATED_MASKS s). Proof. tabs. apply N.eqb_eq. assumption. Qed.
Lemma knight_eq : knight_att (msq s) = flipv (knight_att s). Proof. tabs. apply N.eqb_eq. assumption. Qed.
Lemma king_eq : king_att (msq s) = flipv (king_att s). Proof. tabs. apply N.eqb_eq. assumption. Qed.
Lemma pw_eq : nthZ PASSED_WHITE_PAWN_BONUS (nthN LOOKUP_RANK (msq s)) = nthZ PASSED_BLACK_PAWN_BONUS (nthN LOOKUP_RANK s). Proof. tabs. apply Z.eqb_eq. assumption. Qed.
Lemma pb_eq : nthZ PASSED_BLACK_PAWN_BONUS (nthN LOOKUP_RANK (msq s)) = nthZ PASSED_WHITE_PAWN_BONUS (nthN LOOKUP_RANK s). Proof. tabs. apply Z.eqb_eq. assumption. Qed.
Lemma file_below : below64 (nthN FILE_MASKS s). Proof. tabs. apply below_mask. apply N.ltb_lt. assumption. Qed.
Lemma iso_below : below64 (nthN ISOLATED_MASKS s). Proof. tabs. apply below_mask. apply N.ltb_lt. assumption. Qed.
Lemma wpm_below : below64 (nthN WHITE_PASSED_PAWN_MASKS s). Proof. tabs. apply below_mask. apply N.ltb_lt. assumption. Qed.
Lemma bpm_below : below64 (nthN BLACK_PASSED_PAWN_MASKS s). Proof. tabs. apply below_mask. apply N.ltb_lt. assumption. Qed.

(* land with a flipped mask *)
Lemma land_file_pop b : below64 b -> pop_count (N.land (flipv b) (nthN FILE_MASKS (msq s))) = pop_count (N.land b (nthN FILE_MASKS s)).
Proof. intros B. rewrite file_eq, <- (flipv_land b _ B file_below). apply flipv_pop. apply below_land_l. exact B. Qed.
Lemma file_empty_flip b : below64 b -> file_empty (flipv b) (msq s) = file_empty b s.
Proof. intros B. unfold file_empty. rewrite file_eq, <- (flipv_land b _ B file_below). apply flipv_zero. apply below_land_l. exact B. Qed.
Lemma iso_flip b : below64 b -> (N.land (flipv b) (nthN ISOLATED_MASKS (msq s)) =? 0) = (N.land b (nthN ISOLATED_MASKS s) =? 0).
Proof. intros B. rewrite iso_eq, <- (flipv_land b _ B iso_below). apply flipv_zero. apply below_land_l. exact B. Qed.
Lemma king_pop b : below64 b -> pop_count (N.land (king_att (msq s)) (flipv b)) = pop_count (N.land (king_att s) b).
Proof.
  intros B. assert (KB : below64 (king_att s)) by (intros t; apply king_lt; exact S).
  rewrite king_eq, <- (flipv_land _ b KB B). apply flipv_pop. apply below_land_l. exact KB.
Qed.
Lemma knight_pop : pop_count (knight_att (msq s)) = pop_count (knight_att s).
Proof. rewrite knight_eq. apply flipv_pop. intros t. apply knight_lt. exact S. Qed.
Lemma bishop_pop occ : below64 occ -> pop_count (bishop_att (msq s) (flipv occ)) = pop_count (bishop_att s occ).
Proof. intros B. rewrite (bishop_flip s occ S B). apply flipv_pop. intros t. apply bishop_lt. exact S. Qed.
Lemma rook_pop occ : below64 occ -> pop_count (rook_att (msq s) (flipv occ)) = pop_count (rook_att s occ).
Proof. intros B. rewrite (rook_flip s occ S B). apply flipv_pop. intros t. apply rook_lt. exact S. Qed.
Lemma queen_pop occ : below64 occ -> pop_count (queen_att (msq s) (flipv occ)) = pop_count (queen_att s occ).
Proof. intros B. rewrite (queen_flip s occ S B). apply flipv_pop. intros t. apply queen_lt. exact S. Qed.
End Comp.

Lemma land_sub a m : (forall x, tb a x = true -> tb m x = true) -> N.land a m = a.
Proof.
  intros H. apply N.bits_inj. intros x. rewrite N.land_spec. destruct (N.testbit a x) eqn:T; [|reflexivity]. fold (tb a x) in T. apply H in T. unfold tb in T. rewrite T. reflexivity.
Qed.

Definition pawn_rows (b : N) : Prop := forall x, tb b x = true -> 8 <= x < 56.
Lemma pawn_rows_below b : pawn_rows b -> below64 b. Proof. intros H x T. destruct (H x T). lia. Qed.
Lemma pawn_rows_PR b : pawn_rows b -> forall Y, N.land b Y = N.land b (N.land Y PR).
Proof.
  intros H Y. rewrite (N.land_comm Y PR), N.land_assoc. rewrite (land_sub b PR); [reflexivity|].
  intros x T. destruct (H x T) as (A & B). pose proof (all64 _ passed_check x ltac:(lia)) as X. unfold passed_ok in X.
  replace ((8 <=? x) && (x <? 56)) with true in X by (symmetry; apply andb_true_iff; split; [apply N.leb_le|apply N.ltb_lt]; assumption).
  cbn [implb] in X. apply andb_true_iff in X. unfold tb. tauto.
Qed.

Lemma passed_flip_w b s : pawn_rows b -> 8 <= s < 56 ->
  (N.land (flipv b) (nthN WHITE_PASSED_PAWN_MASKS (msq s)) =? 0) = (N.land b (nthN BLACK_PASSED_PAWN_MASKS s) =? 0).
Proof.
  intros PRW (S8 & S56). assert (S : s < 64) by lia. pose proof (pawn_rows_below b PRW) as B.
  pose proof (wpm_below (msq s) (msq_lt s S)) as XB. set (X := nthN WHITE_PASSED_PAWN_MASKS (msq s)) in *.
  rewrite <- (flipv_invol X XB) at 1. rewrite <- (flipv_land b (flipv X) B (flipv_below X XB)).
  rewrite (flipv_zero _ (below_land_l b _ B)).
  pose proof (all64 _ passed_check s S) as CK. unfold passed_ok in CK.
  replace ((8 <=? s) && (s <? 56)) with true in CK by (symmetry; apply andb_true_iff; split; [apply N.leb_le|apply N.ltb_lt]; assumption).
  cbn [implb] in CK. apply andb_true_iff in CK. destruct CK as [CK _]. apply andb_true_iff in CK. destruct CK as [CK _]. apply N.eqb_eq in CK. fold X in CK.
  rewrite (pawn_rows_PR b PRW (flipv X)), CK, <- (pawn_rows_PR b PRW). reflexivity.
Qed.
Lemma passed_flip_b b s : pawn_rows b -> 8 <= s < 56 ->
  (N.land (flipv b) (nthN BLACK_PASSED_PAWN_MASKS (msq s)) =? 0) = (N.land b (nthN WHITE_PASSED_PAWN_MASKS s) =? 0).
Proof.
  intros PRW (S8 & S56). assert (S : s < 64) by lia. pose proof (pawn_rows_below b PRW) as B.
  pose proof (bpm_below (msq s) (msq_lt s S)) as XB. set (X := nthN BLACK_PASSED_PAWN_MASKS (msq s)) in *.
  rewrite <- (flipv_invol X XB) at 1. rewrite <- (flipv_land b (flipv X) B (flipv_below X XB)).
  rewrite (flipv_zero _ (below_land_l b _ B)).
  pose proof (all64 _ passed_check s S) as CK. unfold passed_ok in CK.
  replace ((8 <=? s) && (s <? 56)) with true in CK by (symmetry; apply andb_true_iff; split; [apply N.leb_le|apply N.ltb_lt]; assumption).
  cbn [implb] in CK. apply andb_true_iff in CK. destruct CK as [CK _]. apply andb_true_iff in CK. destruct CK as [_ CK]. apply N.eqb_eq in CK. fold X in CK.
  rewrite (pawn_rows_PR b PRW (flipv X)), CK, <- (pawn_rows_PR b PRW). reflexivity.
Qed.

(* ---- the colour-mirrored position ---- *)
Definition swapc (p : N) : N := if p <? 6 then p + 6 else p - 6.

Lemma bb_mirror g p : length (bbs g) = 12%nat -> p < 12 -> bb (mirror g) p = flipv (bb g (swapc p)).
Proof.
  intros L P. unfold bb, mirror. cbn [bbs]. destruct (bbs g) as [|b0 [|b1 [|b2 [|b3 [|b4 [|b5 [|b6 [|b7 [|b8 [|b9 [|b10 [|b11 [|x r]]]]]]]]]]]]]; try discriminate L.
  destruct (p12_cases p P) as [E|[E|[E|[E|[E|[E|[E|[E|[E|[E|[E|E]]]]]]]]]]]; subst p; reflexivity.
Qed.

Ltac absz := repeat match goal with
  | |- context [pop_count ?x] => let z := fresh "z" in generalize (pop_count x); intro z
  | |- context [nthZ ?l ?i] => let z := fresh "z" in generalize (nthZ l i); intro z
  end.
Ltac fin := absz; lia.

Section Mir.
Variable g : game.
Hypothesis L12 : length (bbs g) = 12%nat.
Hypothesis PW : pawn_rows (bb g WP).
Hypothesis PB : pawn_rows (bb g BP).
Hypothesis BW : below64 (wocc g).
Hypothesis BBk : below64 (bocc g).
Hypothesis BA : below64 (aocc g).

Let EW : bb (mirror g) WP = flipv (bb g BP) := bb_mirror g WP L12 eq_refl.
Let EB : bb (mirror g) BP = flipv (bb g WP) := bb_mirror g BP L12 eq_refl.
Let BWP : below64 (bb g WP) := pawn_rows_below _ PW.
Let BBP : below64 (bb g BP) := pawn_rows_below _ PB.

Lemma ep_mirror p s : p < 12 -> s < 64 -> ((p = WP \/ p = BP) -> 8 <= s < 56) -> eval_piece (mirror g) p (msq s) = (- eval_piece g (swapc p) s)%Z.
Proof.
  intros P S PS.
  destruct mw_vals as (M0 & M1 & M2 & M3 & M4 & M5 & M6 & M7 & M8 & M9 & M10 & M11).
  destruct (p12_cases p P) as [E|[E|[E|[E|[E|[E|[E|[E|[E|[E|[E|E]]]]]]]]]]]; subst p;
    match goal with |- context [swapc ?k] => let v := eval vm_compute in (swapc k) in change (swapc k) with v end;
    unfold eval_piece; change (aocc (mirror g)) with (flipv (aocc g)); change (wocc (mirror g)) with (flipv (bocc g)); change (bocc (mirror g)) with (flipv (wocc g));
    cbn [N.eqb Pos.eqb]; cbn zeta; rewrite ?EW, ?EB, ?M0, ?M1, ?M2, ?M3, ?M4, ?M5, ?M6, ?M7, ?M8, ?M9, ?M10, ?M11.
  - (* white pawn of the mirror = black pawn of g *)
    specialize (PS (or_introl eq_refl)).
    rewrite (land_file_pop s S _ BBP), (iso_flip s S _ BBP), (passed_flip_w _ s PW PS), (pw_eq s S), (mirrored_eq s S).
    repeat match goal with |- context [if ?c then _ else _] => destruct c end; fin.
  - rewrite (knight_pop s S), (mirrored_eq s S). fin.
  - rewrite (bishop_pop s S _ BA), (mirrored_eq s S). fin.
  - rewrite (rook_pop s S _ BA), (mirrored_eq s S), (file_empty_flip s S _ BBP), <- (flipv_lor _ _ BBP BWP), (file_empty_flip s S _ (below_lor _ _ BBP BWP)).
    repeat match goal with |- context [if ?c then _ else _] => destruct c end; fin.
  - rewrite (queen_pop s S _ BA). fin.
  - rewrite (king_pop s S _ BBk), (mirrored_eq s S), (file_empty_flip s S _ BBP), <- (flipv_lor _ _ BBP BWP), (file_empty_flip s S _ (below_lor _ _ BBP BWP)).
    repeat match goal with |- context [if ?c then _ else _] => destruct c end; fin.
  - (* black pawn of the mirror = white pawn of g *)
    specialize (PS (or_intror eq_refl)).
    rewrite (land_file_pop s S _ BWP), (iso_flip s S _ BWP), (passed_flip_b _ s PB PS), (pb_eq s S), (mirrored_eq (msq s) (msq_lt s S)), msq_invol.
    repeat match goal with |- context [if ?c then _ else _] => destruct c end; fin.
  - rewrite (knight_pop s S), (mirrored_eq (msq s) (msq_lt s S)), msq_invol. fin.
  - rewrite (bishop_pop s S _ BA), (mirrored_eq (msq s) (msq_lt s S)), msq_invol. fin.
  - rewrite (rook_pop s S _ BA), (mirrored_eq (msq s) (msq_lt s S)), msq_invol, (file_empty_flip s S _ BWP), <- (flipv_lor _ _ BWP BBP), (file_empty_flip s S _ (below_lor _ _ BWP BBP)).
    repeat match goal with |- context [if ?c then _ else _] => destruct c end; fin.
  - rewrite (queen_pop s S _ BA). fin.
  - rewrite (king_pop s S _ BW), (mirrored_eq (msq s) (msq_lt s S)), msq_invol, (file_empty_flip s S _ BWP), <- (flipv_lor _ _ BWP BBP), (file_empty_flip s S _ (below_lor _ _ BWP BBP)).
    repeat match goal with |- context [if ?c then _ else _] => destruct c end; fin.
Qed.
End Mir.

(* ---- summing up ---- *)
Lemma sumZ_perm l l' : Permutation l l' -> sumZ l = sumZ l'.
Proof. induction 1; cbn [sumZ fold_right] in *; unfold sumZ in *; lia. Qed.
Lemma sumZ_opp {A} (h : A -> Z) l : sumZ (map (fun x => (- h x)%Z) l) = (- sumZ (map h l))%Z.
Proof. unfold sumZ. induction l as [|x l IH]; cbn [map fold_right]; [reflexivity|]. rewrite IH. lia. Qed.

Definition prow (g : game) : Prop := pawn_rows (bb g WP) /\ pawn_rows (bb g BP).

Section MirSum.
Variable g : game.
Hypothesis C : cons g.
Hypothesis R : range g.
Hypothesis PRW : prow g.

Lemma bb_below p : p < 12 -> below64 (bb g p). Proof. intros P s T. apply (r_sq g R p s P T). Qed.

Lemma S_mirror p : p < 12 -> S (mirror g) p = (- S g (swapc p))%Z.
Proof.
  intros P. destruct PRW as (PW & PB). unfold S.
  assert (SP : swapc p < 12) by (unfold swapc; destruct (N.ltb_spec p 6); lia).
  rewrite (bb_mirror g p (c_len g C) P).
  rewrite (sumZ_perm _ _ (Permutation_map (eval_piece (mirror g) p) (flipv_perm _ (bb_below _ SP)))).
  rewrite map_map, <- sumZ_opp. f_equal. apply map_ext_in. intros s H. apply bits_of_spec in H. fold (tb (bb g (swapc p)) s) in H.
  apply (ep_mirror g (c_len g C) PW PB (fun t => occ_lt64 g C R true t) (fun t => occ_lt64 g C R false t)).
  - intros t T. rewrite (c_aocc g C) in T. apply orb_true_iff in T. destruct T as [T|T]; [apply (occ_lt64 g C R true t T)|apply (occ_lt64 g C R false t T)].
  - exact P.
  - apply (r_sq g R _ s SP H).
  - intros [E|E]; subst p; [apply PB; exact H|apply PW; exact H].
Qed.

Theorem evaluate_white_mirror : evaluate_white (mirror g) = (- evaluate_white g)%Z.
Proof.
  rewrite !evaluate_white_sum.
  rewrite (S_mirror 0), (S_mirror 1), (S_mirror 2), (S_mirror 3), (S_mirror 4), (S_mirror 5), (S_mirror 6), (S_mirror 7), (S_mirror 8), (S_mirror 9), (S_mirror 10), (S_mirror 11) by reflexivity.
  change (swapc 0) with 6. change (swapc 1) with 7. change (swapc 2) with 8. change (swapc 3) with 9. change (swapc 4) with 10. change (swapc 5) with 11.
  change (swapc 6) with 0. change (swapc 7) with 1. change (swapc 8) with 2. change (swapc 9) with 3. change (swapc 10) with 4. change (swapc 11) with 5.
  generalize (S g 0), (S g 1), (S g 2), (S g 3), (S g 4), (S g 5), (S g 6), (S g 7), (S g 8), (S g 9), (S g 10), (S g 11). intros. lia.
Qed.

(* the colour-mirrored position has the same evaluation *)
Theorem evaluate_mirror : evaluate (mirror g) = evaluate g.
Proof. unfold evaluate. rewrite evaluate_white_mirror. cbn [white mirror]. destruct (white g); cbn [negb]; lia. Qed.
End MirSum.
Print Assumptions evaluate_mirror.
