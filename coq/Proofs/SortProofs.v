(* C06 (part): move ordering never drops, duplicates or invents a move: sort_moves returns a permutation of its input. *)
From Coq Require Import NArith ZArith List Bool Lia Permutation.
From JV Require Import Gen.Consts Model.TT Model.Search.
Import ListNotations.

Section Sort.
Variables (pos move : Type).
Variable mv_eqb : move -> move -> bool.
Variable mv_cap : move -> bool.
Variable mv_hidx : move -> nat.
Variable cap_score : pos -> move -> Z.
Variable null_mv : move.

Lemma sort_pass_perm (rest : list (Z * move)) : forall cur c r',
  sort_pass cur rest = (c, r') -> Permutation (c :: r') (cur :: rest).
Proof.
  induction rest as [|x r IH]; intros cur c r' H; cbn [sort_pass] in H.
  - injection H as <- <-. apply Permutation_refl.
  - destruct (fst x >? fst cur)%Z.
    + destruct (sort_pass x r) as [c1 r1] eqn:E. injection H as <- <-.
      specialize (IH x c1 r1 E).
      eapply Permutation_trans; [apply perm_swap|]. apply perm_skip. exact IH.
    + destruct (sort_pass cur r) as [c1 r1] eqn:E. injection H as <- <-.
      specialize (IH cur c1 r1 E).
      eapply Permutation_trans; [apply perm_swap|]. eapply Permutation_trans; [apply perm_skip; exact IH|]. apply perm_swap.
Qed.

Lemma sort_pass_length (rest : list (Z * move)) : forall cur c r', sort_pass cur rest = (c, r') -> length r' = length rest.
Proof.
  intros cur c r' H. apply sort_pass_perm in H. apply Permutation_length in H. cbn in H. lia.
Qed.

Lemma sort_scored_perm fuel : forall l : list (Z * move), Permutation (sort_scored fuel l) l.
Proof.
  induction fuel as [|f IH]; intros l; cbn [sort_scored]; [apply Permutation_refl|].
  destruct l as [|x r]; [apply Permutation_refl|].
  destruct (sort_pass x r) as [c r'] eqn:E.
  eapply Permutation_trans; [apply perm_skip; apply IH|]. apply sort_pass_perm. exact E.
Qed.

Lemma score_all_moves g ms : forall (e : env pos move),
  map snd (fst (score_all mv_eqb mv_cap mv_hidx cap_score null_mv g ms e)) = ms.
Proof.
  induction ms as [|m r IH]; intros e; cbn [score_all]; [reflexivity|].
  destruct (score_move mv_eqb mv_cap mv_hidx cap_score null_mv g m e) as [s e1].
  specialize (IH e1). destruct (score_all mv_eqb mv_cap mv_hidx cap_score null_mv g r e1) as [l e2]. cbn [fst snd map] in *.
  rewrite IH. reflexivity.
Qed.

Theorem sort_moves_perm g ms (e : env pos move) :
  Permutation (fst (sort_moves mv_eqb mv_cap mv_hidx cap_score null_mv g ms e)) ms.
Proof.
  unfold sort_moves. pose proof (score_all_moves g ms e) as H.
  destruct (score_all mv_eqb mv_cap mv_hidx cap_score null_mv g ms e) as [sc e1]. cbn [fst] in *.
  rewrite <- H. apply Permutation_map. apply sort_scored_perm.
Qed.
End Sort.
