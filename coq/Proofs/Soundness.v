(* C01, soundness: every generated move that make_search_move accepts is a legal move under the rules
   (ChessSpec.legalb (abs g) (umove m) = true), for every position satisfying the invariant. *)
From Coq Require Import NArith ZArith List Bool Lia.
From JV Require Import Gen.Consts Spec.Rays Model.Bits Model.Chess Model.Abs Model.SearchChess Spec.ChessSpec Proofs.BitsProofs Proofs.BitboardProofs
  Proofs.MoveGenProofs Proofs.MakeProofs Proofs.ZobristProofs Proofs.KeyProofs Proofs.GenProofs Proofs.ConsProofs Proofs.GenOk Proofs.KingsProofs
  Proofs.RangeProofs Proofs.NkProofs Proofs.LegalInv Proofs.CellProofs Proofs.AbsBase Proofs.AbsGeo Proofs.GenGeo Proofs.AbsMake Proofs.AttackSym
  Proofs.AttackSpec Proofs.GenPseudo.
Import ListNotations.
Local Open Scope N_scope.

Lemma has_piece g c k s : cons g -> s < 64 -> has (board (abs g)) (sq_of_idx s) (c, k) = tb (bb g (pidx c k)) s.
Proof.
  intros C S. unfold has. rewrite (at_abs_cons g s S), who_cell.
  destruct (tb (bb g (pidx c k)) s) eqn:T.
  - rewrite (who_some (st_of g) s (pidx c k) (cons_consB g C) ltac:(destruct c, k; reflexivity) T). cbn [option_map]. rewrite piece_of_pidx.
    cbn [fst snd]. destruct c, k; reflexivity.
  - destruct (who (st_of g) s) as [q|] eqn:W; [|reflexivity]. destruct (who_inv _ _ _ W) as (Q & TQ). cbn [option_map].
    destruct (piece_of q) as [c' k'] eqn:PQ. cbn [fst snd].
    destruct (color_eqb c' c && kind_eqb k' k) eqn:E; [|reflexivity]. exfalso.
    apply andb_true_iff in E. destruct E as [E1 E2].
    assert (c' = c) by (destruct c, c'; cbn in E1; congruence). assert (k' = k) by (destruct k, k'; cbn in E2; congruence). subst.
    assert (QE : pidx c k = q) by (rewrite <- (pidx_piece_of q Q), PQ; reflexivity). rewrite QE in T.
    change (sb (st_of g) q s) with (tb (bb g q) s) in TQ. congruence.
Qed.

(* rank facts *)
Definition rank_ok (s : N) : bool :=
  Bool.eqb (rowZ s =? 7)%Z (s <? 8) && Bool.eqb (rowZ s =? 0)%Z (55 <? s) &&
  Bool.eqb (rowZ s =? 1)%Z ((48 <=? s) && (s <? 56)) && Bool.eqb (rowZ s =? 6)%Z ((8 <=? s) && (s <? 16)).
Lemma rank_check : forallb rank_ok (seqN 0 64) = true. Proof. vm_compute. reflexivity. Qed.
Lemma rank_spec s : s < 64 ->
  ((rowZ s =? 7)%Z = (s <? 8)) /\ ((rowZ s =? 0)%Z = (55 <? s)) /\ ((rowZ s =? 1)%Z = ((48 <=? s) && (s <? 56))) /\ ((rowZ s =? 6)%Z = ((8 <=? s) && (s <? 16))).
Proof.
  intros L. pose proof (all64 _ rank_check s L) as X. unfold rank_ok in X.
  apply andb_true_iff in X. destruct X as [X X4]. apply andb_true_iff in X. destruct X as [X X3]. apply andb_true_iff in X. destruct X as [X1 X2].
  apply eqb_prop in X1, X2, X3, X4. auto.
Qed.

Section Pseudo.
Variables (g : game) (all : bool) (m : move).
Hypothesis LI : legal_inv g.
Hypothesis HI : In m (generate_moves g all).

Let C : cons g := proj1 LI.
Let KG : kings g := proj1 (proj2 LI).
Let R : range g := proj1 (proj2 (proj2 LI)).
Let NK : nk g := proj1 (proj2 (proj2 (proj2 LI))).
Let NKC : nkc g m := nk_nkc g all m C KG R NK HI.
Let K : move_ok g m := generated_moves_ok g C all m HI NKC.
Let PS : promo_sane m := generated_promo_sane g all m HI.
Let G : move_geo g m := generated_geo g R all m HI.
Let RG : move_rng g m := generated_rng g C R all m HI.
Let PP : move_ps g m := generated_ps g R all m HI.
Let p := mpiece m. Let f := mfrom m. Let t := mto m. Let w := white g.
Let Ff : f < 64 := F64 g all m LI HI.
Let Tt : t < 64 := T64 g all m LI HI.

Lemma colr_wb c : colr (wb c) = c. Proof. destruct c; reflexivity. Qed.
Lemma wb_colr b : wb (colr b) = b. Proof. destruct b; reflexivity. Qed.

(* the target square does not hold a man of the mover *)
Lemma target_not_own :
  negb (match color_at (board (abs g)) (sq_of_idx t) with Some ct => color_eqb ct (colr w) | None => false end) = true.
Proof.
  unfold color_at. rewrite (at_abs_cons g t Tt), who_cell.
  destruct (mcap m) eqn:CAP.
  - destruct (mep m) eqn:EP.
    + destruct (k_ep g m K EP) as (_ & AT & _). fold t in AT.
      assert (X : who (st_of g) t = None).
      { apply who_none. intros q Q. apply (occ_clear g C q t Q AT). }
      rewrite X. reflexivity.
    + destruct (k_cap g m K CAP EP) as (v & VI & VT). destruct (victims_opp g v (mpiece m) VI (k_own g m K)) as (_ & V12 & VC).
      fold t in VT. rewrite (who_some (st_of g) t v (cons_consB g C) V12 VT). cbn [option_map].
      pose proof (piece_of_color v V12) as PC. destruct (piece_of v) as [cv kv]. cbn [fst] in PC. subst cv. rewrite VC. fold w.
      destruct w; reflexivity.
  - pose proof (k_quiet g m K CAP) as AT. fold t in AT.
    assert (X : who (st_of g) t = None) by (apply who_none; intros q Q; apply (occ_clear g C q t Q AT)).
    rewrite X. reflexivity.
Qed.

Lemma empty_t : mcap m = false -> empty (board (abs g)) (sq_of_idx t) = true.
Proof. intros CAP. rewrite (empty_abs_cons g t C Tt). unfold t. rewrite (k_quiet g m K CAP). reflexivity. Qed.

Lemma spromo_none : mpromo m = NOPIECE -> spromo (umove m) = None.
Proof. intros E. unfold umove, promo_kind. cbn [spromo]. rewrite E. reflexivity. Qed.

Lemma not_pawn_nopromo : mpiece m <> WP -> mpiece m <> BP -> mpromo m = NOPIECE.
Proof.
  intros N1 N2. destruct (N.eq_dec (mpromo m) NOPIECE) as [E|NE]; [exact E|]. destruct (PS NE) as ([X|X] & _); contradiction.
Qed.

Lemma promo_kind_ok pr : pr <> NOPIECE -> pr <> WP -> pr <> BP -> pr <> WK -> pr <> BK -> pr < 12 ->
  match promo_kind pr with Some Knight | Some Bishop | Some Rook | Some Queen => true | _ => false end = true.
Proof.
  intros N0 N1 N2 N3 N4 L. assert (X : In pr PIECES) by (apply PIECES_in; exact L). unfold PIECES in X. cbn in X.
  repeat (destruct X as [<-|X]; [try reflexivity; try (exfalso; apply N1; reflexivity); try (exfalso; apply N2; reflexivity);
                                    try (exfalso; apply N3; reflexivity); try (exfalso; apply N4; reflexivity)|]). destruct X.
Qed.

Lemma promo_ok_pawn : (mpiece m = WP \/ mpiece m = BP) ->
  (if (snd (sq_of_idx t) =? last_rank (colr w))%Z
   then match spromo (umove m) with Some Knight | Some Bishop | Some Rook | Some Queen => true | _ => false end
   else match spromo (umove m) with None => true | _ => false end) = true.
Proof.
  intros PW. pose proof (ps_rank g m PP PW) as RK. fold t w in RK. change (snd (sq_of_idx t)) with (rowZ t).
  destruct (rank_spec t Tt) as (R7 & R0 & _ & _).
  assert (LR : (rowZ t =? last_rank (colr w))%Z = (if w then t <? 8 else 55 <? t)) by (destruct w; cbn [colr last_rank]; assumption).
  rewrite LR. unfold umove. cbn [spromo].
  destruct (N.eq_dec (mpromo m) NOPIECE) as [E|NE].
  - assert (X : (if w then t <? 8 else 55 <? t) = false).
    { destruct w; [destruct (N.ltb_spec t 8) as [L|]; [|reflexivity]|destruct (N.ltb_spec 55 t) as [L|]; [|reflexivity]]; exfalso; apply (proj2 RK L); exact E. }
    rewrite X. unfold promo_kind. rewrite E. reflexivity.
  - assert (X : (if w then t <? 8 else 55 <? t) = true) by (destruct w; apply N.ltb_lt; apply (proj1 RK NE)).
    rewrite X. destruct (mg_promo g m G NE) as (A1 & A2 & A3 & A4 & A5). apply promo_kind_ok; assumption.
Qed.

Lemma pawn_att_spec : tb (pawn_att f w) t = pawn_attacks (colr w) (sq_of_idx f) (sq_of_idx t).
Proof.
  destruct w; cbn [colr]; [apply (pair_eq_spec _ _ wpawn_is_attack f t Ff Tt)|apply (pair_eq_spec _ _ bpawn_is_attack f t Ff Tt)].
Qed.

Lemma pawn_move_ok : (mpiece m = WP \/ mpiece m = BP) ->
  ((fst (sq_of_idx f) =? fst (sq_of_idx t))%Z && (snd (sq_of_idx t) =? snd (sq_of_idx f) + fwd (colr w))%Z && empty (board (abs g)) (sq_of_idx t)) ||
  ((fst (sq_of_idx f) =? fst (sq_of_idx t))%Z && (snd (sq_of_idx f) =? start_rank (colr w))%Z &&
   (snd (sq_of_idx t) =? snd (sq_of_idx f) + 2 * fwd (colr w))%Z && empty (board (abs g)) (sq_of_idx t) &&
   empty (board (abs g)) (fst (sq_of_idx f), (snd (sq_of_idx f) + fwd (colr w))%Z)) ||
  (pawn_attacks (colr w) (sq_of_idx f) (sq_of_idx t) &&
   ((match color_at (board (abs g)) (sq_of_idx t) with Some ct => color_eqb ct (opp (colr w)) | None => false end) ||
    (match epsq (abs g) with Some e => sq_eqb e (sq_of_idx t) | None => false end))) = true.
Proof.
  intros PW. change (fst (sq_of_idx f)) with (colZ f). change (fst (sq_of_idx t)) with (colZ t).
  change (snd (sq_of_idx f)) with (rowZ f). change (snd (sq_of_idx t)) with (rowZ t).
  destruct (mcap m) eqn:CAP.
  - (* capture *)
    apply orb_true_iff. right. rewrite <- pawn_att_spec. pose proof (mg_pcap g m G PW CAP) as A. fold f t w in A. rewrite A. cbn [andb].
    destruct (mep m) eqn:EP.
    + destruct (mg_ep g m G EP) as (TE & NE). fold t in TE. rewrite (epsq_abs g). apply N.eqb_neq in NE. rewrite NE. rewrite <- TE.
      rewrite (sq_eqb_idx t t Tt Tt), N.eqb_refl. apply orb_true_r.
    + destruct (k_cap g m K CAP EP) as (v & VI & VT). destruct (victims_opp g v (mpiece m) VI (k_own g m K)) as (_ & V12 & VC).
      fold t in VT. unfold color_at. rewrite (at_abs_cons g t Tt), who_cell, (who_some (st_of g) t v (cons_consB g C) V12 VT). cbn [option_map].
      pose proof (piece_of_color v V12) as PC. destruct (piece_of v) as [cv kv]. cbn [fst] in PC. subst cv. rewrite VC. fold w. destruct w; reflexivity.
  - pose proof (empty_t CAP) as ET. rewrite ET.
    destruct (mg_push g m G PW CAP) as [(DP & REL)|(DP & REL)]; fold w f t in REL.
    + (* single push *)
      apply orb_true_iff. left. apply orb_true_iff. left. rewrite andb_true_r. apply andb_true_iff.
      destruct w; cbn [colr fwd].
      * rewrite REL. destruct (proj1 (push_geo_spec t Tt) ltac:(rewrite <- REL; exact Ff)) as (CE & RE). rewrite CE, RE. split; apply Z.eqb_eq; lia.
      * rewrite REL. destruct (proj1 (push_geo_spec f Ff) ltac:(rewrite <- REL; exact Tt)) as (CE & RE). rewrite CE, RE. split; apply Z.eqb_eq; lia.
    + (* double push *)
      apply orb_true_iff. left. apply orb_true_iff. right.
      destruct (k_dp g m K DP) as (_ & _ & _ & EB & _). pose proof (ps_dp g m PP DP) as SR. fold w f t in EB, SR.
      destruct (rank_spec f Ff) as (_ & _ & R1 & R6).
      destruct w; cbn [colr fwd start_rank behind] in *.
      * pose proof Ff as FF. rewrite REL in FF. destruct (push_geo_spec t Tt) as (P8 & P16). destruct (P16 FF) as (C16 & R16). destruct (P8 ltac:(lia)) as (C8 & R8).
        assert (CF : colZ f = colZ t) by (rewrite REL; exact C16). assert (RF : rowZ f = (rowZ t - 2)%Z) by (rewrite REL; exact R16).
        assert (RF1 : rowZ f = 1%Z).
        { apply Z.eqb_eq. rewrite R1. apply andb_true_iff. split; [apply N.leb_le|apply N.ltb_lt]; lia. }
        assert (MID : (colZ f, (rowZ f + 1)%Z) = sq_of_idx (t + 8)) by (rewrite (sq_eta (t + 8)), C8, R8, CF, RF; f_equal; lia).
        rewrite MID, (empty_abs_cons g (t + 8) C ltac:(lia)), EB. rewrite CF, Z.eqb_refl. rewrite RF1, Z.eqb_refl.
        replace (rowZ t =? 1 + 2 * 1)%Z with true by (symmetry; apply Z.eqb_eq; lia). reflexivity.
      * pose proof Tt as TT. rewrite REL in TT. destruct (push_geo_spec f Ff) as (P8 & P16). destruct (P16 TT) as (C16 & R16). destruct (P8 ltac:(lia)) as (C8 & R8).
        assert (CT : colZ t = colZ f) by (rewrite REL; exact C16). assert (RT : rowZ t = (rowZ f - 2)%Z) by (rewrite REL; exact R16).
        assert (RF6 : rowZ f = 6%Z).
        { apply Z.eqb_eq. rewrite R6. apply andb_true_iff. split; [apply N.leb_le|apply N.ltb_lt]; lia. }
        assert (MID : (colZ f, (rowZ f + -1)%Z) = sq_of_idx (f + 8)) by (rewrite (sq_eta (f + 8)), C8, R8; f_equal; lia).
        assert (EB' : tb (aocc g) (f + 8) = false) by (replace (f + 8) with (t - 8) by lia; exact EB).
        rewrite MID, (empty_abs_cons g (f + 8) C ltac:(lia)), EB'. rewrite CT, Z.eqb_refl. rewrite RF6, Z.eqb_refl.
        replace (rowZ t =? 6 + 2 * -1)%Z with true by (symmetry; apply Z.eqb_eq; lia). reflexivity.
Qed.

Lemma attacked_by_opp s : s < 64 -> attacked (board (abs g)) (opp (colr w)) (sq_of_idx s) = is_square_attacked (bbs g) (aocc g) s (negb w).
Proof. intros L. rewrite (attacked_model g (opp (colr w)) s C R L). destruct w; reflexivity. Qed.

Lemma mask_empty mask s : N.land (aocc g) mask = 0 -> tb mask s = true -> s < 64 -> empty (board (abs g)) (sq_of_idx s) = true.
Proof. intros Z M L. rewrite (empty_abs_cons g s C L). rewrite (land_zero _ _ s Z M). reflexivity. Qed.

Lemma king_move_ok : (mpiece m = WK \/ mpiece m = BK) ->
  (king_step (sq_of_idx f) (sq_of_idx t) ||
   (let r := home_rank (colr w) in
    sq_eqb (sq_of_idx f) (4, r)%Z && (snd (sq_of_idx t) =? r)%Z && negb (attacked (board (abs g)) (opp (colr w)) (sq_of_idx f)) &&
    (((fst (sq_of_idx t) =? 6)%Z && (match colr w with White => cK (abs g) | Black => ck (abs g) end) && has (board (abs g)) (7, r)%Z (colr w, Rook)
       && empty (board (abs g)) (5, r)%Z && empty (board (abs g)) (6, r)%Z && negb (attacked (board (abs g)) (opp (colr w)) (5, r)%Z))
     || ((fst (sq_of_idx t) =? 2)%Z && (match colr w with White => cQ (abs g) | Black => cq (abs g) end) && has (board (abs g)) (0, r)%Z (colr w, Rook)
       && empty (board (abs g)) (3, r)%Z && empty (board (abs g)) (2, r)%Z && empty (board (abs g)) (1, r)%Z && negb (attacked (board (abs g)) (opp (colr w)) (3, r)%Z))))) = true.
Proof.
  intros PK. destruct (mcastle m) eqn:CS.
  - apply orb_true_iff. right. cbn zeta.
    destruct (ps_castle g m PP CS) as (i & mask & cross & RT & EM & A1 & A2 & SH). fold f w in A1, A2.
    destruct (k_castle g m K CS) as (_ & _ & _ & CASES). pose proof (k_castle_from g m K CS) as KF. fold f w in KF.
    destruct SH as [(W & T1 & -> & -> & ->)|[(W & T1 & -> & -> & ->)|[(W & T1 & -> & -> & ->)|(W & T1 & -> & -> & ->)]]]; fold w in W; fold t in T1;
      rewrite W in *; cbn [colr home_rank opp negb] in *; rewrite KF in *; rewrite T1 in *;
      destruct CASES as [(W' & _ & [(T' & _ & RK)|(T' & _ & RK)])|(W' & _ & [(T' & _ & RK)|(T' & _ & RK)])]; try discriminate W'; try (fold t in T'; rewrite T1 in T'; discriminate T').
    + change (4, 0)%Z with (sq_of_idx 60). change (7, 0)%Z with (sq_of_idx 63). change (5, 0)%Z with (sq_of_idx 61). change (6, 0)%Z with (sq_of_idx 62).
      rewrite (sq_eqb_idx 60 60 ltac:(lia) ltac:(lia)). rewrite !(attacked_model g Black _ C R) by lia. cbn [wb]. rewrite A1, A2.
      rewrite (has_piece g White Rook 63 C ltac:(lia)). change (pidx White Rook) with WR. rewrite RK.
      rewrite (mask_empty CASTLE_EMPTY_WK 61 EM ltac:(reflexivity) ltac:(lia)), (mask_empty CASTLE_EMPTY_WK 62 EM ltac:(reflexivity) ltac:(lia)).
      cbn [cK abs]. unfold tb in RT. rewrite RT. reflexivity.
    + change (4, 0)%Z with (sq_of_idx 60). change (0, 0)%Z with (sq_of_idx 56). change (3, 0)%Z with (sq_of_idx 59). change (2, 0)%Z with (sq_of_idx 58). change (1, 0)%Z with (sq_of_idx 57).
      rewrite (sq_eqb_idx 60 60 ltac:(lia) ltac:(lia)). rewrite !(attacked_model g Black _ C R) by lia. cbn [wb]. rewrite A1, A2.
      rewrite (has_piece g White Rook 56 C ltac:(lia)). change (pidx White Rook) with WR. rewrite RK.
      rewrite (mask_empty CASTLE_EMPTY_WQ 59 EM ltac:(reflexivity) ltac:(lia)), (mask_empty CASTLE_EMPTY_WQ 58 EM ltac:(reflexivity) ltac:(lia)), (mask_empty CASTLE_EMPTY_WQ 57 EM ltac:(reflexivity) ltac:(lia)).
      cbn [cQ abs]. unfold tb in RT. rewrite RT. reflexivity.
    + change (4, 7)%Z with (sq_of_idx 4). change (7, 7)%Z with (sq_of_idx 7). change (5, 7)%Z with (sq_of_idx 5). change (6, 7)%Z with (sq_of_idx 6).
      rewrite (sq_eqb_idx 4 4 ltac:(lia) ltac:(lia)). rewrite !(attacked_model g White _ C R) by lia. cbn [wb]. rewrite A1, A2.
      rewrite (has_piece g Black Rook 7 C ltac:(lia)). change (pidx Black Rook) with BR. rewrite RK.
      rewrite (mask_empty CASTLE_EMPTY_BK 5 EM ltac:(reflexivity) ltac:(lia)), (mask_empty CASTLE_EMPTY_BK 6 EM ltac:(reflexivity) ltac:(lia)).
      cbn [ck abs]. unfold tb in RT. rewrite RT. reflexivity.
    + change (4, 7)%Z with (sq_of_idx 4). change (0, 7)%Z with (sq_of_idx 0). change (3, 7)%Z with (sq_of_idx 3). change (2, 7)%Z with (sq_of_idx 2). change (1, 7)%Z with (sq_of_idx 1).
      rewrite (sq_eqb_idx 4 4 ltac:(lia) ltac:(lia)). rewrite !(attacked_model g White _ C R) by lia. cbn [wb]. rewrite A1, A2.
      rewrite (has_piece g Black Rook 0 C ltac:(lia)). change (pidx Black Rook) with BR. rewrite RK.
      rewrite (mask_empty CASTLE_EMPTY_BQ 3 EM ltac:(reflexivity) ltac:(lia)), (mask_empty CASTLE_EMPTY_BQ 2 EM ltac:(reflexivity) ltac:(lia)), (mask_empty CASTLE_EMPTY_BQ 1 EM ltac:(reflexivity) ltac:(lia)).
      cbn [cq abs]. unfold tb in RT. rewrite RT. reflexivity.
  - apply orb_true_iff. left. pose proof (mg_king g m G PK CS) as A. fold f t in A. rewrite <- (pair_eq_spec _ _ king_is_step f t Ff Tt). exact A.
Qed.

Lemma patt_att_of k : k <> Pawn -> k <> King -> patt g (pidx (colr w) k) f = att_of g (colr w) k f.
Proof. intros N1 N2. destruct w, k; try contradiction; reflexivity. Qed.

Theorem pseudo_ok : pseudo (abs g) (umove m) = true.
Proof.
  unfold pseudo. cbn zeta. change (sfrom (umove m)) with (sq_of_idx f). change (sto (umove m)) with (sq_of_idx t). rewrite (stm_abs g). fold w.
  destruct (sq_idx f Ff) as (_ & Of). destruct (sq_idx t Tt) as (_ & Ot). rewrite Of, Ot. cbn [andb].
  rewrite (at_abs_cons g f Ff). unfold f. rewrite (cell_from g all m LI HI). fold p f.
  pose proof (k_p12 g m K) as P12. fold p in P12.
  destruct (piece_of p) as [c' k] eqn:PQ.
  assert (CE : c' = colr w) by (pose proof (piece_of_color p P12) as Y; rewrite PQ in Y; cbn [fst] in Y; rewrite Y; unfold p; rewrite (k_own g m K); reflexivity).
  subst c'. rewrite color_eqb_refl, target_not_own. cbn [andb].
  assert (PE : p = pidx (colr w) k) by (rewrite <- (pidx_piece_of p P12), PQ; reflexivity).
  destruct k.
  - (* pawn *)
    assert (PW : mpiece m = WP \/ mpiece m = BP) by (fold p; rewrite PE; destruct w; [left|right]; reflexivity).
    rewrite (promo_ok_pawn PW). cbn [andb]. exact (pawn_move_ok PW).
  - (* knight *)
    rewrite (spromo_none (not_pawn_nopromo ltac:(fold p; rewrite PE; destruct w; discriminate) ltac:(fold p; rewrite PE; destruct w; discriminate))).
    rewrite (attacks_from_model g (colr w) Knight f t C Ff Tt). rewrite <- (patt_att_of Knight ltac:(discriminate) ltac:(discriminate)), <- PE.
    apply (ps_piece g m PP); [fold p; rewrite PE; destruct w; discriminate|fold p; rewrite PE; destruct w; discriminate|].
    destruct (mcastle m) eqn:CS; [|reflexivity]. destruct (k_castle g m K CS) as (_ & _ & _ & [(_ & X & _)|(_ & X & _)]); fold p in X; rewrite PE in X; destruct w; discriminate X.
  - (* bishop *)
    rewrite (spromo_none (not_pawn_nopromo ltac:(fold p; rewrite PE; destruct w; discriminate) ltac:(fold p; rewrite PE; destruct w; discriminate))).
    rewrite (attacks_from_model g (colr w) Bishop f t C Ff Tt). rewrite <- (patt_att_of Bishop ltac:(discriminate) ltac:(discriminate)), <- PE.
    apply (ps_piece g m PP); [fold p; rewrite PE; destruct w; discriminate|fold p; rewrite PE; destruct w; discriminate|].
    destruct (mcastle m) eqn:CS; [|reflexivity]. destruct (k_castle g m K CS) as (_ & _ & _ & [(_ & X & _)|(_ & X & _)]); fold p in X; rewrite PE in X; destruct w; discriminate X.
  - (* rook *)
    rewrite (spromo_none (not_pawn_nopromo ltac:(fold p; rewrite PE; destruct w; discriminate) ltac:(fold p; rewrite PE; destruct w; discriminate))).
    rewrite (attacks_from_model g (colr w) Rook f t C Ff Tt). rewrite <- (patt_att_of Rook ltac:(discriminate) ltac:(discriminate)), <- PE.
    apply (ps_piece g m PP); [fold p; rewrite PE; destruct w; discriminate|fold p; rewrite PE; destruct w; discriminate|].
    destruct (mcastle m) eqn:CS; [|reflexivity]. destruct (k_castle g m K CS) as (_ & _ & _ & [(_ & X & _)|(_ & X & _)]); fold p in X; rewrite PE in X; destruct w; discriminate X.
  - (* queen *)
    rewrite (spromo_none (not_pawn_nopromo ltac:(fold p; rewrite PE; destruct w; discriminate) ltac:(fold p; rewrite PE; destruct w; discriminate))).
    rewrite (attacks_from_model g (colr w) Queen f t C Ff Tt). rewrite <- (patt_att_of Queen ltac:(discriminate) ltac:(discriminate)), <- PE.
    apply (ps_piece g m PP); [fold p; rewrite PE; destruct w; discriminate|fold p; rewrite PE; destruct w; discriminate|].
    destruct (mcastle m) eqn:CS; [|reflexivity]. destruct (k_castle g m K CS) as (_ & _ & _ & [(_ & X & _)|(_ & X & _)]); fold p in X; rewrite PE in X; destruct w; discriminate X.
  - (* king *)
    rewrite (spromo_none (not_pawn_nopromo ltac:(fold p; rewrite PE; destruct w; discriminate) ltac:(fold p; rewrite PE; destruct w; discriminate))).
    apply king_move_ok. fold p. rewrite PE. destruct w; [left|right]; reflexivity.
Qed.
End Pseudo.
Print Assumptions pseudo_ok.

Theorem accepted_is_legal g all m g' : legal_inv g -> In m (generate_moves g all) -> make_search_move g m = Made g' ->
  legalb (abs g) (umove m) = true.
Proof.
  intros LI HI H. unfold legalb. rewrite (pseudo_ok g all m LI HI). cbn [andb].
  rewrite <- (board_eq g all m g' LI HI H). rewrite (stm_abs g).
  assert (L' : legal_inv g') by (apply (legal_step g all m g' LI HI); unfold c_make; rewrite H; reflexivity).
  destruct L' as (C' & KG' & R' & NK' & _).
  rewrite (in_check_model g' (colr (white g)) C' R' KG'). rewrite wb_colr.
  unfold NkProofs.nk in NK'. destruct (make_scalars g m g' H) as (SW & _). rewrite SW, negb_involutive in NK'. rewrite NK'. reflexivity.
Qed.

Lemma promo_in_promos g all m : legal_inv g -> In m (generate_moves g all) -> In (spromo (umove m)) promos.
Proof.
  intros LI HI. unfold umove. cbn [spromo]. destruct (N.eq_dec (mpromo m) NOPIECE) as [E|NE].
  - unfold promo_kind. rewrite E. left. reflexivity.
  - pose proof (generated_geo g (proj1 (proj2 (proj2 LI))) all m HI) as G. destruct (mg_promo g m G NE) as (A1 & A2 & A3 & A4 & A5).
    pose proof (promo_kind_ok (mpromo m) NE A1 A2 A3 A4 A5) as X. unfold promos.
    destruct (promo_kind (mpromo m)) as [[]|]; try discriminate X; cbn; auto 10.
Qed.

(* C01, soundness: a generated move that make accepts is one of the legal moves of the rules *)
Theorem accepted_in_legal_moves g all m g' : legal_inv g -> In m (generate_moves g all) -> make_search_move g m = Made g' ->
  In (umove m) (ChessSpec.legal_moves (abs g)).
Proof.
  intros LI HI H. unfold ChessSpec.legal_moves. apply filter_In. split; [|exact (accepted_is_legal g all m g' LI HI H)].
  pose proof (F64 g all m LI HI) as Ff. pose proof (T64 g all m LI HI) as Tt.
  apply in_flat_map. exists (sq_of_idx (mfrom m)). split.
  - unfold own_squares. apply filter_In. split; [apply all_sq_has; exact Ff|].
    unfold color_at. rewrite (at_abs_cons g (mfrom m) Ff), (cell_from g all m LI HI).
    pose proof (generated_moves_ok g (proj1 LI) all m HI (nk_nkc g all m (proj1 LI) (proj1 (proj2 LI)) (proj1 (proj2 (proj2 LI))) (proj1 (proj2 (proj2 (proj2 LI)))) HI)) as K.
    pose proof (piece_of_color (mpiece m) (k_p12 g m K)) as PC. destruct (piece_of (mpiece m)) as [c k]. cbn [fst] in PC. subst c.
    rewrite (k_own g m K), (stm_abs g). apply color_eqb_refl.
  - apply in_flat_map. exists (sq_of_idx (mto m)). split; [apply all_sq_has; exact Tt|].
    apply in_map_iff. exists (spromo (umove m)). split; [reflexivity|apply (promo_in_promos g all m LI HI)].
Qed.
Print Assumptions accepted_in_legal_moves.
