(* C11 on the exact-search domain: the value of the reference game tree (Spec/GameTree.v instantiated with chess -- what the searches
   of depth 1-2 with the table bypassed return, C19) is either inside +-34200, or MATE_VALUE - q with the side to move able to FORCE
   mate at ply q in the sense of the rules (ChessSpec.mates_in), or -MATE_VALUE + q with the side to move mated by force at ply q
   (ChessSpec.mated_in).  Ingredients: the evaluation bound (C16), exact move generation (C01), the successor refinement (C02),
   the invariants along play, and the verdicts at the leaves (C06). *)
From Coq Require Import NArith ZArith List Bool Lia Permutation.
From JV Require Import Gen.Consts Model.Bits Model.Chess Model.Eval Model.Abs Model.Search Model.SearchChess Model.Sym Spec.ChessSpec Spec.SpecCore Spec.AlphaBeta Spec.GameTree Spec.Minimax
  Proofs.GenProofs Proofs.ConsProofs Proofs.GenOk Proofs.KingsProofs Proofs.RangeProofs Proofs.NkProofs Proofs.LegalInv Proofs.AbsMake Proofs.AttackSpec Proofs.Soundness
  Proofs.Exact Proofs.RulesLevel Proofs.CountProofs Proofs.EvalBound Proofs.MateSpec Proofs.MateProofs.
Import ListNotations.
Local Open Scope Z_scope.

(* ---- the maximum computed by the reference tree ---- *)
Lemma fold_omax_char {A} (h : A -> Z) cs : forall base,
  match fold_left (fun acc c => omax acc (Some (h c))) cs base with
  | None => base = None /\ cs = []
  | Some v => (base = Some v \/ exists c, In c cs /\ h c = v) /\ (forall b, base = Some b -> b <= v) /\ (forall c, In c cs -> h c <= v)
  end.
Proof.
  induction cs as [|c r IH]; intros base; cbn [fold_left].
  - destruct base as [b|]; [|auto]. split; [left; reflexivity|]. split; [intros b' E; injection E as <-; lia|intros c []].
  - specialize (IH (omax base (Some (h c)))). destruct (fold_left _ r (omax base (Some (h c)))) as [v|].
    + destruct IH as (I1 & I2 & I3). destruct base as [b|]; cbn [omax] in *.
      * specialize (I2 _ eq_refl). split; [|split].
        -- destruct I1 as [E|(c' & Hc & E)]; [|right; exists c'; split; [right; exact Hc|exact E]]. injection E as E.
           destruct (Z.max_spec b (h c)) as [(L & M)|(L & M)]; rewrite M in E; [right; exists c; split; [left; reflexivity|exact E]|left; congruence].
        -- intros b' E. injection E as <-. lia.
        -- intros c' [<-|Hc]; [lia|apply I3; exact Hc].
      * specialize (I2 _ eq_refl). split; [|split].
        -- right. destruct I1 as [E|(c' & Hc & E)]; [injection E as E; exists c; split; [left; reflexivity|exact E]|exists c'; split; [right; exact Hc|exact E]].
        -- intros b' E. discriminate E.
        -- intros c' [<-|Hc]; [exact I2|apply I3; exact Hc].
    + destruct IH as (I1 & _). destruct base; discriminate I1.
Qed.

Notation cV := (V game move generate_moves c_make evaluate c_in_check c_half100).
Notation cexp := (gexpand game move generate_moves c_make evaluate c_in_check c_half100).
Notation csuccs := (gsuccs game move generate_moves c_make).

Definition B : Z := 34200.

(* ---- the invariant at every node of the tree ---- *)
Definition GI (g : game) : Prop := legal_inv g /\ men16 g.
Lemma succ_GI g all g' : GI g -> In g' (csuccs g all) -> GI g' /\ exists m, In m (generate_moves g all) /\ make_search_move g m = Made g'.
Proof.
  intros (LI & M) H. unfold gsuccs, succs_of in H. apply in_flat_map in H. destruct H as (m & HI & H).
  unfold c_make in H. destruct (make_search_move g m) as [|g''|] eqn:E; try (destruct H; fail). destruct H as [<-|[]].
  split; [|exists m; split; [exact HI|exact E]]. split.
  - apply (legal_step g all m g'' LI HI). unfold c_make. rewrite E. reflexivity.
  - destruct LI as (C & KG & R & NK & KO). apply (make_men16 g m g'' C (generated_moves_ok g C all m HI (nk_nkc g all m C KG R NK HI)) E M).
Qed.
Lemma eval_B g : GI g -> Z.abs (evaluate g) <= B.
Proof.
  intros ((C & KG & R & _) & M). pose proof (evaluate_white_bound g KG R M) as X. unfold evaluate, B. destruct (white g); lia.
Qed.

(* ---- quiescence nodes never carry a mate score ---- *)
Lemma Vq_bound : forall n x, (MAXPLY - n_ply x = n)%nat -> (n_ply x <= MAXPLY)%nat -> n_q x = true -> GI (n_g x) -> Z.abs (cV x) <= B.
Proof.
  induction n as [|n IH]; intros x EN PL Q G; rewrite (V_unfold _ _ _ _ _ _ _ x PL); unfold gexpand, gexpand_with; rewrite Q; unfold shape_q; cbn zeta.
  - replace (Nat.ltb (MAXPLY - 1) (n_ply x)) with true by (symmetry; apply Nat.ltb_lt; unfold MAXPLY in *; cbn in *; lia). cbn [orb]. apply eval_B. exact G.
  - destruct (Nat.ltb (MAXPLY - 1) (n_ply x) || c_half100 (n_g x)) eqn:LF; [apply eval_B; exact G|].
    apply orb_false_iff in LF. destruct LF as [LT _]. apply Nat.ltb_ge in LT.
    unfold child_fold.
    pose proof (fold_omax_char (fun c => - cV c) (map (fun g' => mkN g' true 0 (Datatypes.S (n_ply x))) (csuccs (n_g x) false)) (Some (evaluate (n_g x)))) as X.
    destruct (fold_left _ _ (Some (evaluate (n_g x)))) as [v|]; [|destruct X as (X & _); discriminate X].
    destruct X as ([E|(c & Hc & E)] & _ & _); cbn [oval].
    + injection E as <-. apply eval_B. exact G.
    + apply in_map_iff in Hc. destruct Hc as (g' & <- & Hg). destruct (succ_GI _ _ _ G Hg) as (G' & _).
      pose proof (IH (mkN g' true 0 (Datatypes.S (n_ply x))) ltac:(cbn [n_ply]; lia) ltac:(cbn [n_ply]; lia) eq_refl G') as Y. lia.
Qed.

(* ---- the three kinds of values ---- *)
Definition Quiet (x : mnode) : Prop := Z.abs (cV x) <= B.
Definition Mating (x : mnode) (n : nat) : Prop :=
  (1 <= n)%nat /\ (n_ply x + 2 * n - 1 <= MAXPLY)%nat /\ cV x = MATE_VALUE - Z.of_nat (n_ply x + 2 * n - 1) /\ mates_in n (abs (n_g x)) = true.
Definition Mated (x : mnode) (n : nat) : Prop :=
  (n_ply x + 2 * n <= MAXPLY)%nat /\ cV x = - MATE_VALUE + Z.of_nat (n_ply x + 2 * n) /\ mated_in n (abs (n_g x)) = true.
Definition R (x : mnode) : Prop := Quiet x \/ (exists n, Mating x n) \/ (exists n, Mated x n).

Lemma maxply_val : MAXPLY = 64%nat. Proof. reflexivity. Qed.

(* a made move of the model, as a move of the rules *)
Lemma child_spec g g' m all : GI g -> In m (generate_moves g all) -> make_search_move g m = Made g' ->
  In (umove m) (ChessSpec.legal_moves (abs g)) /\ core (abs g') = core (apply (abs g) (umove m)).
Proof.
  intros (LI & _) HI E. split; [exact (accepted_in_legal_moves g all m g' LI HI E)|exact (make_abs_core g all m g' LI HI E)].
Qed.

Lemma in_check_spec g : GI g -> in_check (board (abs g)) (stm (abs g)) = c_in_check g.
Proof.
  intros ((C & KG & Rg & _) & _). rewrite (in_check_model g (stm (abs g)) C Rg KG). rewrite (stm_abs g), wb_colr. reflexivity.
Qed.

Theorem R_node : forall n x, (MAXPLY - n_ply x = n)%nat -> (n_ply x <= MAXPLY)%nat -> n_q x = false -> GI (n_g x) -> R x.
Proof.
  pose proof maxply_val as MP. induction n as [|n IH]; intros x EN PL Q G.
  - (* at the ply limit: a leaf *)
    left. unfold Quiet. rewrite (V_unfold _ _ _ _ _ _ _ x PL). unfold gexpand, gexpand_with. rewrite Q. cbn zeta.
    replace (Nat.leb (MAXPLY - 1) (n_ply x)) with true by (symmetry; apply Nat.leb_le; lia). apply eval_B. exact G.
  - destruct (Nat.leb (MAXPLY - 1) (n_ply x)) eqn:LG.
    { left. unfold Quiet. rewrite (V_unfold _ _ _ _ _ _ _ x PL). unfold gexpand, gexpand_with. rewrite Q, LG. apply eval_B. exact G. }
    apply Nat.leb_gt in LG.
    destruct (Nat.eqb (n_depth x) 0 || c_half100 (n_g x)) eqn:HZ.
    { (* the horizon: the value of the quiescence node *)
      left. unfold Quiet. destruct x as [g q d p]. cbn [n_q n_g n_ply n_depth] in *. subst q.
      rewrite (Vn_horizon _ _ _ _ _ _ _ g d p PL ltac:(apply Nat.leb_gt; exact LG) HZ).
      apply (Vq_bound (MAXPLY - p) (mkN g true 0 p) eq_refl PL eq_refl G). }
    assert (VU := V_unfold _ _ generate_moves c_make evaluate c_in_check c_half100 x ltac:(lia)).
    unfold gexpand, gexpand_with in VU. rewrite Q in VU. cbn zeta in VU.
    replace (Nat.leb (MAXPLY - 1) (n_ply x)) with false in VU by (symmetry; apply Nat.leb_gt; lia). rewrite HZ in VU.
    unfold shape_n in VU. cbn zeta in VU.
    destruct (csuccs (n_g x) true) as [|c0 cs0] eqn:SU.
    + (* no legal move: the verdict *)
      assert (NL : ChessSpec.legal_moves (abs (n_g x)) = []).
      { apply (no_accepted_no_legal (n_g x) (generate_moves (n_g x) true) (proj1 G) (Permutation_refl _)).
        apply Forall_forall. intros m HI. destruct (c_make (n_g x) m) as [g'|] eqn:E; [|reflexivity]. exfalso.
        assert (X : In g' (csuccs (n_g x) true)) by (unfold gsuccs, succs_of; apply in_flat_map; exists m; split; [exact HI|rewrite E; left; reflexivity]).
        rewrite SU in X. destruct X. }
      destruct (c_in_check (n_g x)) eqn:IC.
      * right. right. exists 0%nat. unfold Mated. rewrite Nat.mul_0_r, Nat.add_0_r. split; [lia|]. split; [exact VU|].
        rewrite mated_in_unfold, NL. rewrite (in_check_spec _ G). exact IC.
      * left. unfold Quiet. rewrite VU. unfold B. lia.
    + (* the maximum over the children *)
      set (nd := if c_in_check (n_g x) then Datatypes.S (n_depth x) else n_depth x) in *.
      set (ch := fun g' => mkN g' false (nd - 1) (Datatypes.S (n_ply x))) in *.
      unfold child_fold in VU.
      pose proof (fold_omax_char (fun c => - cV c) (map ch (c0 :: cs0)) None) as X.
      destruct (fold_left _ (map ch (c0 :: cs0)) None) as [v|]; [|destruct X as (_ & X); discriminate X].
      cbn [oval] in VU. destruct X as ([X|(cstar & Hc & EV)] & _ & UB); [discriminate X|].
      (* what we know of every child *)
      assert (RC : forall g', In g' (c0 :: cs0) -> R (ch g') /\ GI g' /\ exists m, In m (generate_moves (n_g x) true) /\ make_search_move (n_g x) m = Made g').
      { intros g' Hg. rewrite <- SU in Hg. destruct (succ_GI _ _ _ G Hg) as (G' & MV). split; [|split; [exact G'|exact MV]].
        apply (IH (ch g')); [cbn [n_ply ch]; lia|cbn [n_ply ch]; lia|reflexivity|exact G']. }
      apply in_map_iff in Hc. destruct Hc as (gs & <- & Hgs). destruct (RC gs Hgs) as (RS & GS & ms & HIs & Es).
      destruct (child_spec _ _ _ _ G HIs Es) as (LMs & COs).
      destruct RS as [QS|[(k & K1 & K2 & K3 & K4)|(k & K2 & K3 & K4)]].
      * left. unfold Quiet in *. rewrite VU, <- EV. lia.
      * (* the best child mates: the node is mated; every child mates at least as fast *)
        right. right. exists k. cbn [n_ply ch] in K2, K3. unfold Mated. split; [lia|]. split; [rewrite VU, <- EV, K3; lia|].
        rewrite mated_in_unfold. destruct (ChessSpec.legal_moves (abs (n_g x))) as [|sm0 sms] eqn:LM; [destruct LMs|].
        apply forallb_forall. intros sm Hsm. rewrite <- LM in Hsm.
        assert (LB : legalb (abs (n_g x)) sm = true) by (unfold ChessSpec.legal_moves in Hsm; apply filter_In in Hsm; tauto).
        destruct (legal_is_accepted (n_g x) sm (proj1 G) LB) as (m' & g' & HI' & UM & E').
        assert (Hg' : In g' (c0 :: cs0)).
        { rewrite <- SU. unfold gsuccs, succs_of. apply in_flat_map. exists m'. split; [exact HI'|]. unfold c_make. rewrite E'. left. reflexivity. }
        destruct (RC g' Hg') as (R' & G' & _). destruct (child_spec _ _ _ _ G HI' E') as (_ & CO').
        rewrite <- UM. rewrite <- (mates_in_core k _ _ CO').
        pose proof (UB (ch g') (in_map ch _ _ Hg')) as LE. cbn beta in LE. rewrite <- EV, K3 in LE. cbn [n_ply ch] in LE.
        destruct R' as [Q'|[(k' & J1 & J2 & J3 & J4)|(k' & J2 & J3 & J4)]].
        -- exfalso. unfold Quiet, B in Q'. unfold MATE_VALUE in *. lia.
        -- cbn [n_ply ch n_g] in J2, J3, J4. apply (mates_in_le k' k); [unfold MATE_VALUE in *; lia|exact J4].
        -- exfalso. cbn [n_ply ch] in J2, J3. unfold MATE_VALUE in *. lia.
      * (* the best child is mated: the node mates *)
        right. left. exists (Datatypes.S k). cbn [n_ply ch n_g] in K2, K3, K4. unfold Mating. split; [lia|]. split; [lia|]. split; [rewrite VU, <- EV, K3; lia|].
        rewrite mates_in_S. apply existsb_exists. exists (umove ms). split; [exact LMs|]. rewrite <- (mated_in_core k _ _ COs). exact K4.
Qed.

(* ---- at the root: what the printed mate field says is true under the rules ---- *)
Theorem exact_value_is_truthful g (depth : N) : legal_inv g -> men16 g ->
  let v := minimax g depth in
  (Z.abs v <= B /\ mate_field v = None) \/
  (exists n, (1 <= n)%nat /\ v = MATE_VALUE - Z.of_nat (2 * n - 1) /\ mate_field v = Some (Z.of_nat n) /\ mates_in n (abs g) = true) \/
  (exists n, v = - MATE_VALUE + Z.of_nat (2 * n) /\ mate_field v = Some (- Z.of_nat n) /\ mated_in n (abs g) = true).
Proof.
  intros LI M. cbn zeta. unfold minimax. rewrite gminimax_V.
  set (x := mkN g false (N.to_nat depth) 0).
  pose proof (R_node (MAXPLY - 0) x eq_refl ltac:(cbn [n_ply x]; lia) eq_refl (conj LI M)) as RX.
  pose proof maxply_val as MP.
  destruct RX as [Q|[(n & K1 & K2 & K3 & K4)|(n & K2 & K3 & K4)]].
  - left. split; [exact Q|]. apply mate_field_cp. unfold Quiet, B in Q. unfold MATE_BOUND. lia.
  - right. left. exists n. cbn [n_ply x n_g] in *. rewrite Nat.add_0_l in K2, K3. split; [exact K1|]. split; [exact K3|]. split; [|exact K4].
    rewrite K3. rewrite mate_field_pos by lia.
    replace (Z.odd (Z.of_nat (2 * n - 1))) with true by (symmetry; apply Z.odd_spec; exists (Z.of_nat n - 1); lia).
    f_equal. replace (Z.of_nat (2 * n - 1) + 1) with (Z.of_nat n * 2) by lia. rewrite Z.quot_mul by lia. lia.
  - right. right. exists n. cbn [n_ply x n_g] in *. rewrite Nat.add_0_l in K2, K3. split; [exact K3|]. split; [|exact K4].
    rewrite K3. rewrite mate_field_neg by lia. f_equal. replace (Z.of_nat (2 * n)) with (Z.of_nat n * 2) by lia. rewrite Z.div_mul by lia. reflexivity.
Qed.
Print Assumptions exact_value_is_truthful.

(* the mate field of every printed info line is mate_field of its score (by construction of search()) *)
Definition mate_ok (o : out move) : Prop := match o with OInfo s m _ _ _ => m = mate_field s | OBest _ => True end.
Lemma id_loop_mate_fields pollp stop_at bypass iters : forall g cur maxd a b sc (e : c_env) outs r e' s',
  Forall mate_ok outs ->
  id_loop generate_moves c_make null_move evaluate c_in_check hash c_half100 move_eqb mcap c_promo c_hidx c_cap_score NULL_MOVE is_legal pollp stop_at bypass
          iters g cur maxd a b sc e outs = SDone r e' s' -> Forall mate_ok r.
Proof.
  induction iters as [|it IH]; intros g cur maxd a b sc e outs r e' s' F H; cbn [id_loop] in H.
  - injection H as <- _ _. apply Forall_app. split; [exact F|constructor; [exact I|constructor]].
  - destruct (Nat.ltb maxd cur); [injection H as <- _ _; apply Forall_app; split; [exact F|constructor; [exact I|constructor]]|].
    destruct (negamax _ _ _ _ _ _ _ _ _ _ _ _ _ _ _ _ _ _ _ _ _ _) as [s e1|]; [|discriminate H].
    destruct (stopping e1); [injection H as <- _ _; apply Forall_app; split; [exact F|constructor; [exact I|constructor]]|].
    destruct (_ || _); [apply (IH _ _ _ _ _ _ _ _ _ _ _ F H)|].
    refine (IH _ _ _ _ _ _ _ _ _ _ _ _ H). apply Forall_app. split; [exact F|]. constructor; [reflexivity|constructor].
Qed.
Theorem search_mate_fields pollp stop_at bypass g depth t rt ri outs e s :
  chess_search pollp stop_at bypass g depth t rt ri = SDone outs e s -> Forall mate_ok outs.
Proof. unfold chess_search, search. intros H. apply (id_loop_mate_fields _ _ _ _ _ _ _ _ _ _ _ _ _ _ _ (Forall_nil _) H). Qed.
