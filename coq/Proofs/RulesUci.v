(* C05 at the level of the rules: within one position no two legal moves share a UCI string, `position ... moves` accepts a token
   exactly when it is the string of a legal move, and the accepted move is that legal move of the rules. *)
From Coq Require Import NArith ZArith List Bool String Lia.
From JV Require Import Gen.Consts Model.Bits Model.Chess Model.Abs Model.SearchChess Model.Fen Spec.ChessSpec
  Proofs.MoveGenProofs Proofs.KeyProofs Proofs.GenProofs Proofs.ConsProofs Proofs.GenOk Proofs.GenGeo Proofs.LegalInv Proofs.AbsMake Proofs.Soundness Proofs.UmoveInj Proofs.Exact
  Proofs.FenProofs Proofs.UciProofs.
Import ListNotations.
Local Open Scope N_scope.

Lemma generated_promo_piece g all m : legal_inv g -> In m (generate_moves g all) -> In (mpromo m) promo_pieces.
Proof.
  intros LI HI. destruct (N.eq_dec (mpromo m) NOPIECE) as [E|NE]; [rewrite E; left; reflexivity|].
  pose proof (gx g all m LI HI) as G. destruct (mg_promo g m G NE) as (A1 & A2 & A3 & A4 & A5).
  assert (X : In (mpromo m) PIECES) by (apply PIECES_in; exact A5). unfold PIECES in X. cbn in X. unfold promo_pieces. cbn [In].
  repeat (destruct X as [X|X]; [rewrite <- X in *; try (exfalso; (apply A1 || apply A2 || apply A3 || apply A4); reflexivity); auto 12|]). destruct X.
Qed.

Lemma promo_kind_n_kind : forallb (fun p => forallb (fun q => implb (promo_kind_n p =? promo_kind_n q)
  (match promo_kind p, promo_kind q with None, None => true | Some a, Some b => kind_eqb a b | _, _ => false end)) promo_pieces) promo_pieces = true.
Proof. vm_compute. reflexivity. Qed.
Lemma promo_kind_of_n p q : In p promo_pieces -> In q promo_pieces -> promo_kind_n p = promo_kind_n q -> promo_kind p = promo_kind q.
Proof.
  intros P Q E. pose proof promo_kind_n_kind as X. rewrite forallb_forall in X. specialize (X p P). rewrite forallb_forall in X. specialize (X q Q).
  rewrite E, N.eqb_refl in X. cbn [implb] in X. destruct (promo_kind p) as [a|], (promo_kind q) as [b|]; try discriminate X; [|reflexivity].
  f_equal. destruct a, b; cbn in X; congruence.
Qed.

(* no two legal moves of one position print the same *)
Theorem uci_distinct g x y : legal_inv g -> In x (Chess.legal_moves g) -> In y (Chess.legal_moves g) -> to_uci x = to_uci y -> x = y.
Proof.
  intros LI HX HY E. unfold Chess.legal_moves, legal_values in HX, HY. apply filter_In in HX, HY. destruct HX as [HX _]. destruct HY as [HY _].
  pose proof (generated_promo_piece g true x LI HX) as PX. pose proof (generated_promo_piece g true y LI HY) as PY.
  destruct (uci_injective x y (F64 g true x LI HX) (T64 g true x LI HX) PX (F64 g true y LI HY) (T64 g true y LI HY) PY E) as (A & B & K).
  apply (umove_inj_generated g true LI x y HX HY). unfold umove. rewrite A, B, (promo_kind_of_n _ _ PX PY K). reflexivity.
Qed.

(* acceptance is exact *)
Theorem parse_move_exact g tok m : legal_inv g -> (parse_move g tok = Some m <-> In m (Chess.legal_moves g) /\ to_uci m = tok).
Proof.
  intros LI. split; [apply parse_move_sound|]. intros (HI & E).
  destruct (parse_move_complete g tok m HI E) as (m' & P & E'). rewrite P. f_equal.
  destruct (parse_move_sound g tok m' P) as (HI' & _). apply (uci_distinct g m' m LI HI' HI). congruence.
Qed.

(* ... and it is acceptance of exactly the legal moves of the rules *)
Theorem accepted_token_is_rules_legal g tok m : legal_inv g -> parse_move g tok = Some m -> In (umove m) (ChessSpec.legal_moves (abs g)).
Proof.
  intros LI P. destruct (parse_move_sound g tok m P) as (HI & _). apply (legal_set_exact g (umove m) LI). apply in_map. exact HI.
Qed.
Theorem rules_legal_has_accepted_token g sm : legal_inv g -> In sm (ChessSpec.legal_moves (abs g)) ->
  exists m, umove m = sm /\ parse_move g (to_uci m) = Some m.
Proof.
  intros LI H. apply (legal_set_exact g sm LI) in H. apply in_map_iff in H. destruct H as (m & E & HI). exists m. split; [exact E|].
  apply (parse_move_exact g (to_uci m) m LI). split; [exact HI|reflexivity].
Qed.
Print Assumptions rules_legal_has_accepted_token.
