(* C02, placement: the position make_search_move produces IS the successor the rules prescribe -- abs g' = Spec.apply (abs g) m --
   for every position satisfying the invariant and every generated move. *)
From Coq Require Import NArith ZArith List Bool Lia.
From JV Require Import Gen.Consts Spec.Rays Model.Bits Model.Chess Model.Abs Model.SearchChess Spec.ChessSpec Spec.SpecCore Proofs.BitsProofs Proofs.BitboardProofs
  Proofs.MoveGenProofs Proofs.MakeProofs Proofs.ZobristProofs Proofs.KeyProofs Proofs.GenProofs Proofs.ConsProofs Proofs.GenOk Proofs.KingsProofs
  Proofs.RangeProofs Proofs.NkProofs Proofs.LegalInv Proofs.CellProofs Proofs.AbsBase Proofs.AbsGeo Proofs.GenGeo.
Import ListNotations.
Local Open Scope N_scope.

(* ---- the men of the position after the operations ---- *)
Section WhoD.
Variables (g : game) (m : move) (vic : N).
Hypothesis C : cons g.
Hypothesis K : move_ok g m.
Hypothesis V : mcap m = true -> mep m = false -> In vic (victims (white g)) /\ tb (bb g vic) (mto m) = true.

Definition who_after (i : N) : option N :=
  let f := mfrom m in let t := mto m in let p := mpiece m in let w := white g in
  if negb (mpromo m =? NOPIECE) then (if i =? t then Some (mpromo m) else if i =? f then None else who (st_of g) i)
  else if mcastle m then
    (if i =? hop_a t then Some (rook_of w) else if i =? hop_b t then None else if i =? t then Some p else if i =? f then None else who (st_of g) i)
  else if mcap m && mep m then (if i =? t then Some p else if i =? behind w t then None else if i =? f then None else who (st_of g) i)
  else (if i =? t then Some p else if i =? f then None else who (st_of g) i).

Lemma who_D i : who (ops_D g m vic) i = who_after i.
Proof.
  pose proof (cons_consB g C) as C0. pose proof (A_ok g m C K) as AOK. destruct (B_ok g m vic C K V) as (BOK & BT & _).
  pose proof (C_ok g m vic C K V) as COK. pose proof (k_p12 g m K) as P12. pose proof (k_ft g m K) as FT.
  assert (WA : forall j, who (ops_A g m) j = if j =? mfrom m then None else who (st_of g) j).
  { intros j. unfold ops_A. apply who_take; [exact C0|exact P12|apply (k_from g m K)]. }
  assert (WB : forall j, who (ops_B g m vic) j =
            if mcap m then (if mep m then (if j =? behind (white g) (mto m) then None else who (ops_A g m) j)
                            else (if j =? mto m then None else who (ops_A g m) j)) else who (ops_A g m) j).
  { intros j. unfold ops_B. destruct (mcap m) eqn:CAP; [|reflexivity]. destruct (mep m) eqn:EP.
    - destruct (k_ep g m K EP) as (_ & _ & PB & _). destruct (oppP_ne g m K EP) as (NE & L12).
      apply who_take; [exact AOK|exact L12|]. rewrite (sb_A g m C K). destruct (N.eqb_spec (oppP (white g)) (mpiece m)); [contradiction|exact PB].
    - destruct (V eq_refl eq_refl) as (VI & VT). destruct (victims_opp g vic (mpiece m) VI (k_own g m K)) as (NE & L12 & _).
      apply who_take; [exact AOK|exact L12|]. rewrite (sb_A g m C K). destruct (N.eqb_spec vic (mpiece m)); [contradiction|exact VT]. }
  assert (WC : forall j, who (ops_C g m vic) j = if j =? mto m then Some (mpiece m) else who (ops_B g m vic) j).
  { intros j. unfold ops_C. apply who_put; assumption. }
  unfold who_after. cbn zeta. unfold ops_D. cbn zeta.
  destruct (negb (mpromo m =? NOPIECE)) eqn:PR.
  - apply negb_true_iff, N.eqb_neq in PR. destruct (k_promo g m K PR) as (PR12 & _ & _ & CS & DP).
    assert (T : sb (ops_C g m vic) (mpiece m) (mto m) = true) by (rewrite (sb_C g m vic C K V), !N.eqb_refl; apply orb_true_r).
    rewrite who_put; [|apply take_ok; assumption|exact PR12|cbn [take s_ao]; rewrite tb_unset, N.eqb_refl; apply andb_false_r].
    destruct (N.eqb_spec i (mto m)) as [->|NT]; [reflexivity|].
    rewrite who_take by assumption. destruct (N.eqb_spec i (mto m)); [contradiction|]. rewrite WC. destruct (N.eqb_spec i (mto m)); [contradiction|].
    rewrite WB. destruct (mcap m) eqn:CAP.
    + destruct (mep m) eqn:EP; [destruct (k_ep g m K EP) as (_ & _ & _ & X & _); congruence|].
      destruct (N.eqb_spec i (mto m)); [contradiction|]. apply WA.
    + apply WA.
  - destruct (mcastle m) eqn:CS.
    + destruct (k_castle g m K CS) as (CAP & _ & _ & CASES).
      assert (R12 : rook_of (white g) < 12) by (unfold rook_of; destruct (white g); reflexivity).
      assert (NEP : rook_of (white g) <> mpiece m) by (destruct CASES as [(W & PK & _)|(W & PK & _)]; rewrite W, PK; discriminate).
      assert (BA : ops_B g m vic = ops_A g m) by (unfold ops_B; rewrite CAP; reflexivity).
      assert (T : sb (ops_C g m vic) (rook_of (white g)) (hop_b (mto m)) = true).
      { rewrite (sb_C g m vic C K V). destruct (N.eqb_spec (rook_of (white g)) (mpiece m)); [contradiction|].
        rewrite BA. rewrite (sb_A g m C K). destruct (N.eqb_spec (rook_of (white g)) (mpiece m)); [contradiction|].
        unfold rook_of, hop_b.
        destruct CASES as [(W & PK & [(T1 & E1 & R1)|(T1 & E1 & R1)])|(W & PK & [(T1 & E1 & R1)|(T1 & E1 & R1)])]; rewrite W, T1; exact R1. }
      assert (AE : tb (s_ao (take (ops_C g m vic) (rook_of (white g)) (hop_b (mto m)))) (hop_a (mto m)) = false).
      { cbn [take s_ao]. rewrite tb_unset. unfold ops_C. cbn [put s_ao]. rewrite tb_set. rewrite BA. rewrite (ao_A g m).
        unfold hop_a, hop_b.
        destruct CASES as [(W & PK & [(T1 & E1 & R1)|(T1 & E1 & R1)])|(W & PK & [(T1 & E1 & R1)|(T1 & E1 & R1)])]; rewrite T1; cbn [N.eqb Pos.eqb]; rewrite E1; reflexivity. }
      rewrite who_put; [|apply take_ok; assumption|exact R12|exact AE].
      destruct (i =? hop_a (mto m)); [reflexivity|].
      rewrite who_take by assumption. destruct (i =? hop_b (mto m)); [reflexivity|].
      rewrite WC. destruct (i =? mto m); [reflexivity|]. rewrite WB, CAP. apply WA.
    + rewrite WC. destruct (mcap m) eqn:CAP; cbn [andb].
      * destruct (mep m) eqn:EP.
        -- destruct (i =? mto m); [reflexivity|]. rewrite WB. destruct (i =? behind (white g) (mto m)); [reflexivity|]. apply WA.
        -- destruct (N.eqb_spec i (mto m)) as [->|NT]; [reflexivity|]. rewrite WB. destruct (N.eqb_spec i (mto m)); [contradiction|]. apply WA.
      * destruct (i =? mto m); [reflexivity|]. rewrite WB. apply WA.
Qed.
End WhoD.

(* ---- the specification side ---- *)
Lemma board_abs_length g : length (board (abs g)) = 64%nat.
Proof. unfold abs. cbn [board]. rewrite map_length. apply seqN_length. Qed.

Lemma board_abs_nth g j : (j < 64)%nat -> nth j (board (abs g)) None = cell g (N.of_nat j).
Proof.
  intros L. unfold abs. cbn [board]. rewrite (nth_indep _ None (cell g 0)) by (rewrite map_length, seqN_length; exact L).
  rewrite map_nth. f_equal. rewrite nth_seqN by exact L. lia.
Qed.

Lemma at_abs g s : s < 64 -> at_ (board (abs g)) (sq_of_idx s) = cell g s.
Proof.
  intros L. destruct (sq_idx s L) as (I & O). unfold at_. rewrite O, I. rewrite board_abs_nth by lia. f_equal. lia.
Qed.

Definition colr (w : bool) : color := if w then White else Black.

Lemma piece_of_color p : p < 12 -> fst (piece_of p) = colr (p <? 6).
Proof. intros _. unfold piece_of. cbn [fst]. reflexivity. Qed.

Lemma kind_pawn p : p < 12 -> kind_eqb (snd (piece_of p)) Pawn = (p =? WP) || (p =? BP).
Proof.
  intros P. assert (X : In p PIECES) by (apply PIECES_in; exact P). unfold PIECES in X. cbn in X.
  repeat (destruct X as [<-|X]; [reflexivity|]). destruct X.
Qed.
Lemma kind_king p : p < 12 -> kind_eqb (snd (piece_of p)) King = (p =? WK) || (p =? BK).
Proof.
  intros P. assert (X : In p PIECES) by (apply PIECES_in; exact P). unfold PIECES in X. cbn in X.
  repeat (destruct X as [<-|X]; [reflexivity|]). destruct X.
Qed.

Lemma ownP_cases b : ownP b = WP \/ ownP b = BP.
Proof. destruct b; [left|right]; reflexivity. Qed.

Lemma color_eqb_refl c : color_eqb c c = true. Proof. destruct c; reflexivity. Qed.
Lemma color_eqb_colr a b : color_eqb (colr a) (colr b) = Bool.eqb a b. Proof. destruct a, b; reflexivity. Qed.

Section Refine.
Variables (g : game) (all : bool) (m : move) (g' : game).
Hypothesis LI : legal_inv g.
Hypothesis HI : In m (generate_moves g all).
Hypothesis H : make_search_move g m = Made g'.

Let C : cons g := proj1 LI.
Let KG : kings g := proj1 (proj2 LI).
Let R : range g := proj1 (proj2 (proj2 LI)).
Let NK : nk g := proj1 (proj2 (proj2 (proj2 LI))).
Let NKC : nkc g m := nk_nkc g all m C KG R NK HI.
Let K : move_ok g m := generated_moves_ok g C all m HI NKC.
Let PS : promo_sane m := generated_promo_sane g all m HI.
Let G : move_geo g m := generated_geo g R all m HI.
Let RG : move_rng g m := generated_rng g C R all m HI.

Let p := mpiece m. Let f := mfrom m. Let t := mto m. Let w := white g.

Lemma F64 : f < 64. Proof. apply (r_sq g R p f (k_p12 g m K) (k_from g m K)). Qed.
Lemma T64 : t < 64. Proof. apply (g_t64 g m RG). Qed.

Lemma who_from : who (st_of g) f = Some p.
Proof. apply who_some; [apply cons_consB; exact C|apply (k_p12 g m K)|apply (k_from g m K)]. Qed.
Lemma cell_from : cell g f = Some (piece_of p).
Proof. rewrite who_cell, who_from. reflexivity. Qed.
Lemma pcol : (p <? 6) = w. Proof. apply (k_own g m K). Qed.

Lemma stm_abs : stm (abs g) = colr w. Proof. reflexivity. Qed.

Lemma has_from c k : has (board (abs g)) (sq_of_idx f) (c, k) = color_eqb (colr w) c && kind_eqb (snd (piece_of p)) k.
Proof.
  unfold has. rewrite (at_abs g f F64), cell_from. destruct (piece_of p) as [c' k'] eqn:E. cbn [fst snd].
  assert (X : c' = colr w) by (pose proof (piece_of_color p (k_p12 g m K)) as Y; rewrite E, pcol in Y; exact Y). subst c'. reflexivity.
Qed.

Lemma empty_abs s : s < 64 -> empty (board (abs g)) (sq_of_idx s) = negb (tb (aocc g) s).
Proof.
  intros L. unfold empty. rewrite (at_abs g s L), who_cell.
  destruct (who (st_of g) s) as [q|] eqn:W.
  - destruct (who_inv _ _ _ W) as (Q & T). cbn. rewrite (board_in_aocc g C q s Q T). reflexivity.
  - cbn. destruct (tb (aocc g) s) eqn:A; [|reflexivity]. exfalso.
    rewrite (c_aocc g C) in A. apply orb_true_iff in A. destruct A as [A|A]; [apply (c_wocc g C) in A|apply (c_bocc g C) in A];
      destruct A as (q & Q & T); rewrite (who_some (st_of g) s q (cons_consB g C) ltac:(lia) T) in W; discriminate.
Qed.

Lemma epsq_abs : epsq (abs g) = if ep g =? NOSQ then None else Some (sq_of_idx (ep g)).
Proof. reflexivity. Qed.

Lemma ep_lt64 : ep g <> NOSQ -> ep g < 64.
Proof. intros NE. pose proof (r_ep g R NE). lia. Qed.

(* ---- the specification's classification of the move agrees with the flags ---- *)
Lemma is_ep_eq : is_ep (abs g) (umove m) = mep m.
Proof.
  unfold is_ep, umove. cbn [sfrom sto]. fold f t. rewrite stm_abs, has_from, color_eqb_refl, (kind_pawn p (k_p12 g m K)). cbn [andb].
  rewrite epsq_abs. destruct (mep m) eqn:EP.
  - destruct (k_ep g m K EP) as (CAP & _ & _ & _ & _ & _ & PP). destruct (mg_ep g m G EP) as (TE & NE).
    fold p w in PP. rewrite PP. assert (X : (ownP w =? WP) || (ownP w =? BP) = true) by (destruct w; reflexivity). rewrite X. cbn [andb].
    apply N.eqb_neq in NE. rewrite NE. fold t in TE. rewrite <- TE. rewrite (sq_eqb_idx t t T64 T64), N.eqb_refl. cbn [andb].
    assert (A : tb (pawn_att f w) t = true) by (apply (mg_pcap g m G); [fold p; rewrite PP; apply ownP_cases|exact CAP]).
    destruct (pawn_geo w f t F64 T64 A) as (NC & _). apply negb_true_iff. apply Z.eqb_neq. exact NC.
  - destruct ((p =? WP) || (p =? BP)) eqn:PW; [|reflexivity]. cbn [andb].
    destruct (N.eqb_spec (ep g) NOSQ) as [E|NE]; [reflexivity|].
    assert (PP : mpiece m = WP \/ mpiece m = BP) by (apply orb_true_iff in PW; destruct PW as [X|X]; apply N.eqb_eq in X; fold p; auto).
    rewrite (sq_eqb_idx (ep g) t (ep_lt64 NE) T64).
    destruct (mcap m) eqn:CAP.
    + (* a capture lands on an occupied square, the en-passant square is empty *)
      destruct (k_cap g m K CAP EP) as (v & VI & VT). destruct (victims_opp g v (mpiece m) VI (k_own g m K)) as (_ & V12 & _).
      destruct (c_ep g C NE) as (EA & _). destruct (N.eqb_spec (ep g) t) as [E|]; [|reflexivity].
      exfalso. fold t in VT. rewrite <- E in VT. rewrite (board_in_aocc g C v (ep g) V12 VT) in EA. discriminate.
    + (* a push stays on its file *)
      destruct (N.eqb_spec (ep g) t); [|reflexivity]. cbn [andb]. apply negb_false_iff. apply Z.eqb_eq.
      pose proof F64 as FF. pose proof T64 as TT. unfold colZ in *.
      destruct (mg_push g m G PP CAP) as [(_ & X)|(_ & X)]; fold w f t in X; destruct w.
      * rewrite X in FF |- *. apply (proj1 (push_geo_spec t TT)). exact FF.
      * rewrite X in TT |- *. symmetry. apply (proj1 (push_geo_spec f FF)). exact TT.
      * rewrite X in FF |- *. apply (proj2 (push_geo_spec t TT)). exact FF.
      * rewrite X in TT |- *. symmetry. apply (proj2 (push_geo_spec f FF)). exact TT.
Qed.

Lemma is_castle_eq : is_castle (abs g) (umove m) = mcastle m.
Proof.
  unfold is_castle, umove. cbn [sfrom sto]. fold f t. rewrite stm_abs, has_from, color_eqb_refl, (kind_king p (k_p12 g m K)). cbn [andb].
  destruct (mcastle m) eqn:CS.
  - destruct (k_castle g m K CS) as (_ & _ & _ & CASES). pose proof (k_castle_from g m K CS) as KF. fold f w in KF.
    destruct CASES as [(W & PK & [(T1 & _)|(T1 & _)])|(W & PK & [(T1 & _)|(T1 & _)])]; fold w in W; fold p in PK; fold t in T1;
      rewrite W in KF; rewrite KF, T1, PK; reflexivity.
  - destruct ((p =? WK) || (p =? BK)) eqn:PK; [|reflexivity]. cbn [andb].
    assert (PP : mpiece m = WK \/ mpiece m = BK) by (apply orb_true_iff in PK; destruct PK as [X|X]; apply N.eqb_eq in X; fold p; auto).
    pose proof (mg_king g m G PP CS) as A. fold f t in A. apply Z.eqb_neq. apply (king_geo_spec f t F64 T64 A).
Qed.

Lemma idx_f : idx (sq_of_idx f) = N.to_nat f. Proof. apply (sq_idx f F64). Qed.
Lemma idx_t : idx (sq_of_idx t) = N.to_nat t. Proof. apply (sq_idx t T64). Qed.

Lemma nat_eqb_N j s : Nat.eqb j (N.to_nat s) = (N.of_nat j =? s).
Proof.
  destruct (Nat.eqb_spec j (N.to_nat s)) as [->|NE]; [rewrite N2Nat.id, N.eqb_refl; reflexivity|].
  symmetry. apply N.eqb_neq. intros E. apply NE. rewrite <- E. rewrite Nat2N.id. reflexivity.
Qed.

(* the man put on the target square *)
Definition newman : option piece :=
  match spromo (umove m) with Some k => Some (colr w, k) | None => at_ (board (abs g)) (sq_of_idx f) end.
Lemma newman_eq : newman = Some (piece_of (if mpromo m =? NOPIECE then p else mpromo m)).
Proof.
  unfold newman, umove, promo_kind. cbn [spromo]. destruct (N.eqb_spec (mpromo m) NOPIECE) as [E|NE].
  - rewrite (at_abs g f F64). apply cell_from.
  - destruct (k_promo g m K NE) as (PR12 & PCOL & _). f_equal.
    destruct (piece_of (mpromo m)) as [c k] eqn:E. cbn [snd]. f_equal.
    pose proof (piece_of_color (mpromo m) PR12) as Y. rewrite E, PCOL in Y. cbn [fst] in Y. symmetry. exact Y.
Qed.

Lemma b1_nth j : (j < 64)%nat ->
  nth j (ChessSpec.put (ChessSpec.put (board (abs g)) (sq_of_idx f) None) (sq_of_idx t) newman) None =
  if N.of_nat j =? t then newman else if N.of_nat j =? f then None else cell g (N.of_nat j).
Proof.
  intros L. pose proof (board_abs_length g) as BL.
  rewrite nth_put by (rewrite put_length; rewrite ?idx_f, ?idx_t, BL; pose proof F64; pose proof T64; lia).
  rewrite idx_t, nat_eqb_N. destruct (N.of_nat j =? t); [reflexivity|].
  rewrite nth_put by (rewrite idx_f, BL; pose proof F64; lia). rewrite idx_f, nat_eqb_N. destruct (N.of_nat j =? f); [reflexivity|].
  apply board_abs_nth. exact L.
Qed.

Lemma b1_length : length (ChessSpec.put (ChessSpec.put (board (abs g)) (sq_of_idx f) None) (sq_of_idx t) newman) = 64%nat.
Proof.
  pose proof (board_abs_length g) as BL. pose proof F64. pose proof T64.
  rewrite put_length by (rewrite put_length; rewrite ?idx_f, ?idx_t, BL; lia). rewrite put_length by (rewrite idx_f, BL; lia). exact BL.
Qed.

Lemma piece_of_rook : piece_of (rook_of w) = (colr w, Rook).
Proof. unfold rook_of. destruct w; reflexivity. Qed.

Lemma hop_nth j sa sb (a b : N) v : idx sa = N.to_nat a -> idx sb = N.to_nat b -> a < 64 -> b < 64 ->
  nth j (ChessSpec.put (ChessSpec.put (ChessSpec.put (ChessSpec.put (board (abs g)) (sq_of_idx f) None) (sq_of_idx t) newman) sb None) sa v) None =
  if N.of_nat j =? a then v else if N.of_nat j =? b then None
  else nth j (ChessSpec.put (ChessSpec.put (board (abs g)) (sq_of_idx f) None) (sq_of_idx t) newman) None.
Proof.
  intros IA IB A B. pose proof b1_length as B1L.
  rewrite nth_put by (rewrite put_length; rewrite ?IA, ?IB, B1L; lia). rewrite IA, nat_eqb_N. destruct (N.of_nat j =? a); [reflexivity|].
  rewrite nth_put by (rewrite IB, B1L; lia). rewrite IB, nat_eqb_N. reflexivity.
Qed.

Lemma board_after j : (j < 64)%nat ->
  nth j (apply_board (abs g) (umove m)) None = option_map piece_of (who_after g m (N.of_nat j)).
Proof.
  intros L. unfold apply_board. cbn zeta. rewrite is_ep_eq, is_castle_eq, stm_abs.
  change (sfrom (umove m)) with (sq_of_idx f). change (sto (umove m)) with (sq_of_idx t). fold newman.
  unfold who_after. cbn zeta. fold f t p w.
  pose proof b1_length as B1L.
  destruct (negb (mpromo m =? NOPIECE)) eqn:PR.
  - (* promotion *)
    apply negb_true_iff in PR. pose proof PR as PR'. apply N.eqb_neq in PR'.
    destruct (k_promo g m K PR') as (_ & _ & _ & CS & _).
    assert (EP : mep m = false) by (destruct (mep m) eqn:X; [destruct (k_ep g m K X) as (_ & _ & _ & Y & _); congruence|reflexivity]).
    rewrite EP, CS. rewrite (b1_nth j L), newman_eq, PR. destruct (N.of_nat j =? t); [reflexivity|]. destruct (N.of_nat j =? f); [reflexivity|].
    apply who_cell.
  - apply negb_false_iff in PR. destruct (mcastle m) eqn:CS.
    + (* castling *)
      destruct (k_castle g m K CS) as (CAP & _ & _ & CASES).
      assert (EP : mep m = false) by (destruct (mep m) eqn:X; [destruct (k_ep g m K X) as (Y & _); congruence|reflexivity]).
      rewrite EP.
      assert (TAIL : nth j (ChessSpec.put (ChessSpec.put (board (abs g)) (sq_of_idx f) None) (sq_of_idx t) newman) None =
                     option_map piece_of (if N.of_nat j =? t then Some p else if N.of_nat j =? f then None else who (st_of g) (N.of_nat j))).
      { rewrite (b1_nth j L), newman_eq, PR. destruct (N.of_nat j =? t); [reflexivity|]. destruct (N.of_nat j =? f); [reflexivity|]. apply who_cell. }
      destruct CASES as [(W & PK & [(T1 & _)|(T1 & _)])|(W & PK & [(T1 & _)|(T1 & _)])]; fold w in W; fold t in T1; rewrite W; cbn [colr home_rank].
      * assert (X : (fst (sq_of_idx t) =? 6)%Z = true) by (rewrite T1; reflexivity). rewrite X.
        rewrite (hop_nth j (5, 0)%Z (7, 0)%Z 61 63) by (try reflexivity; lia).
        assert (HA : hop_a t = 61) by (rewrite T1; reflexivity). assert (HB : hop_b t = 63) by (rewrite T1; reflexivity). rewrite HA, HB.
        destruct (N.of_nat j =? 61); [reflexivity|]. destruct (N.of_nat j =? 63); [reflexivity|]. exact TAIL.
      * assert (X : (fst (sq_of_idx t) =? 6)%Z = false) by (rewrite T1; reflexivity). rewrite X.
        rewrite (hop_nth j (3, 0)%Z (0, 0)%Z 59 56) by (try reflexivity; lia).
        assert (HA : hop_a t = 59) by (rewrite T1; reflexivity). assert (HB : hop_b t = 56) by (rewrite T1; reflexivity). rewrite HA, HB.
        destruct (N.of_nat j =? 59); [reflexivity|]. destruct (N.of_nat j =? 56); [reflexivity|]. exact TAIL.
      * assert (X : (fst (sq_of_idx t) =? 6)%Z = true) by (rewrite T1; reflexivity). rewrite X.
        rewrite (hop_nth j (5, 7)%Z (7, 7)%Z 5 7) by (try reflexivity; lia).
        assert (HA : hop_a t = 5) by (rewrite T1; reflexivity). assert (HB : hop_b t = 7) by (rewrite T1; reflexivity). rewrite HA, HB.
        destruct (N.of_nat j =? 5); [reflexivity|]. destruct (N.of_nat j =? 7); [reflexivity|]. exact TAIL.
      * assert (X : (fst (sq_of_idx t) =? 6)%Z = false) by (rewrite T1; reflexivity). rewrite X.
        rewrite (hop_nth j (3, 7)%Z (0, 7)%Z 3 0) by (try reflexivity; lia).
        assert (HA : hop_a t = 3) by (rewrite T1; reflexivity). assert (HB : hop_b t = 0) by (rewrite T1; reflexivity). rewrite HA, HB.
        destruct (N.of_nat j =? 3); [reflexivity|]. destruct (N.of_nat j =? 0); [reflexivity|]. exact TAIL.
    + destruct (mep m) eqn:EP.
      * (* en passant *)
        destruct (k_ep g m K EP) as (CAP & _ & _ & _ & _ & _ & PP). rewrite CAP. cbn [andb].
        assert (A : tb (pawn_att f w) t = true) by (apply (mg_pcap g m G); [rewrite PP; apply ownP_cases|exact CAP]).
        destruct (pawn_geo w f t F64 T64 A) as (_ & _ & SQ & B64 & _).
        change (fst (sq_of_idx t)) with (colZ t). change (snd (sq_of_idx f)) with (rowZ f). rewrite SQ.
        fold (behind w t) in *. pose proof (board_abs_length g) as BL.
        rewrite nth_put by (rewrite (proj1 (sq_idx _ B64)), B1L; lia). rewrite (proj1 (sq_idx _ B64)), nat_eqb_N.
        pose proof (behind_ne g m C K EP) as BNE. fold w t in BNE.
        rewrite (b1_nth j L), newman_eq, PR.
        destruct (N.eqb_spec (N.of_nat j) t) as [E|NT].
        -- destruct (N.eqb_spec (N.of_nat j) (behind w t)); [congruence|reflexivity].
        -- destruct (N.of_nat j =? behind w t); [reflexivity|]. destruct (N.of_nat j =? f); [reflexivity|]. apply who_cell.
      * rewrite andb_false_r. rewrite (b1_nth j L), newman_eq, PR. destruct (N.of_nat j =? t); [reflexivity|]. destruct (N.of_nat j =? f); [reflexivity|].
        apply who_cell.
Qed.

Lemma apply_board_length : length (apply_board (abs g) (umove m)) = 64%nat.
Proof.
  unfold apply_board. cbn zeta. rewrite is_ep_eq, is_castle_eq, stm_abs.
  change (sfrom (umove m)) with (sq_of_idx f). change (sto (umove m)) with (sq_of_idx t). fold newman.
  pose proof b1_length as B1L.
  destruct (mep m) eqn:EP.
  - destruct (k_ep g m K EP) as (CAP & _ & _ & _ & _ & _ & PP).
    assert (A : tb (pawn_att f w) t = true) by (apply (mg_pcap g m G); [rewrite PP; apply ownP_cases|exact CAP]).
    destruct (pawn_geo w f t F64 T64 A) as (_ & _ & SQ & B64 & _).
    change (fst (sq_of_idx t)) with (colZ t). change (snd (sq_of_idx f)) with (rowZ f). rewrite SQ.
    rewrite put_length; [exact B1L|]. rewrite (proj1 (sq_idx _ B64)), B1L. lia.
  - destruct (mcastle m); [|exact B1L].
    destruct w; cbn [colr home_rank]; destruct (fst (sq_of_idx t) =? 6)%Z;
      (rewrite put_length; [rewrite put_length; [exact B1L|rewrite B1L; cbn; lia]|rewrite put_length; [rewrite B1L; cbn; lia|rewrite B1L; cbn; lia]]).
Qed.

(* the castling-rights table clears exactly the rights of the six home squares *)
Definition cr_ok (s : N) : bool :=
  Bool.eqb (N.testbit (nthN CASTLING_RIGHTS s) 0) (negb (s =? 60) && negb (s =? 63)) &&
  Bool.eqb (N.testbit (nthN CASTLING_RIGHTS s) 1) (negb (s =? 60) && negb (s =? 56)) &&
  Bool.eqb (N.testbit (nthN CASTLING_RIGHTS s) 2) (negb (s =? 4) && negb (s =? 7)) &&
  Bool.eqb (N.testbit (nthN CASTLING_RIGHTS s) 3) (negb (s =? 4) && negb (s =? 0)).
Lemma cr_check : forallb cr_ok (seqN 0 64) = true.
Proof. vm_compute. reflexivity. Qed.
Lemma cr_spec s : s < 64 ->
  N.testbit (nthN CASTLING_RIGHTS s) 0 = negb (s =? 60) && negb (s =? 63) /\
  N.testbit (nthN CASTLING_RIGHTS s) 1 = negb (s =? 60) && negb (s =? 56) /\
  N.testbit (nthN CASTLING_RIGHTS s) 2 = negb (s =? 4) && negb (s =? 7) /\
  N.testbit (nthN CASTLING_RIGHTS s) 3 = negb (s =? 4) && negb (s =? 0).
Proof.
  intros L. pose proof (all64 _ cr_check s L) as X. unfold cr_ok in X.
  apply andb_true_iff in X. destruct X as [X X4]. apply andb_true_iff in X. destruct X as [X X3]. apply andb_true_iff in X. destruct X as [X1 X2].
  apply eqb_prop in X1, X2, X3, X4. auto.
Qed.

Lemma touch_eq s : s < 64 ->
  sq_eqb (sfrom (umove m)) (sq_of_idx s) || sq_eqb (sto (umove m)) (sq_of_idx s) = (f =? s) || (t =? s).
Proof.
  intros L. change (sfrom (umove m)) with (sq_of_idx f). change (sto (umove m)) with (sq_of_idx t).
  rewrite (sq_eqb_idx f s F64 L), (sq_eqb_idx t s T64 L). reflexivity.
Qed.

Lemma is_pawn_eq : has (board (abs g)) (sfrom (umove m)) (stm (abs g), Pawn) = (p =? WP) || (p =? BP).
Proof.
  change (sfrom (umove m)) with (sq_of_idx f). rewrite stm_abs, has_from, color_eqb_refl, (kind_pawn p (k_p12 g m K)). reflexivity.
Qed.

Lemma capture_eq : negb (empty (board (abs g)) (sto (umove m))) || is_ep (abs g) (umove m) = mcap m.
Proof.
  change (sto (umove m)) with (sq_of_idx t). rewrite (empty_abs t T64), negb_involutive, is_ep_eq.
  destruct (mcap m) eqn:CAP.
  - destruct (mep m) eqn:EP; [apply orb_true_r|]. rewrite orb_false_r.
    destruct (k_cap g m K CAP EP) as (v & VI & VT). destruct (victims_opp g v (mpiece m) VI (k_own g m K)) as (_ & V12 & _).
    apply (board_in_aocc g C v t V12 VT).
  - unfold t. rewrite (k_quiet g m K CAP). destruct (mep m) eqn:EP; [destruct (k_ep g m K EP) as (X & _); congruence|reflexivity].
Qed.

Lemma board_eq : board (abs g') = apply_board (abs g) (umove m).
Proof.
  destruct (made_st_eq g m g' C K H) as (vic & V & E).
  apply (nth_ext _ _ None None).
  - rewrite board_abs_length, apply_board_length. reflexivity.
  - intros j L. rewrite board_abs_length in L. rewrite (board_abs_nth g' j L), (board_after j L).
    rewrite who_cell. f_equal. rewrite (who_ext _ _ (N.of_nat j) E). apply (who_D g m vic C K V).
Qed.

Theorem make_abs : half g < 255 -> full g < 65535 -> abs g' = apply (abs g) (umove m).
Proof.
  intros HH HF. destruct (make_scalars g m g' H) as (SW & SH & SF & SC & SE).
  unfold apply. cbn zeta. rewrite is_pawn_eq, capture_eq.
  unfold rights_after.
  change (4, 0)%Z with (sq_of_idx 60). change (7, 0)%Z with (sq_of_idx 63). change (0, 0)%Z with (sq_of_idx 56).
  change (4, 7)%Z with (sq_of_idx 4). change (7, 7)%Z with (sq_of_idx 7). change (0, 7)%Z with (sq_of_idx 0).
  rewrite !(touch_eq 60 ltac:(lia)), !(touch_eq 63 ltac:(lia)), !(touch_eq 56 ltac:(lia)), !(touch_eq 4 ltac:(lia)), !(touch_eq 7 ltac:(lia)), !(touch_eq 0 ltac:(lia)).
  rewrite <- board_eq.
  unfold abs at 1. rewrite SW, SH, SF, SC, SE.
  destruct (cr_spec f F64) as (F0 & F1 & F2 & F3). destruct (cr_spec t T64) as (T0 & T1 & T2 & T3).
  f_equal.
  - fold w. rewrite stm_abs. destruct w; reflexivity.
  - rewrite !N.land_spec. fold f t. rewrite F0, T0. cbn [cK abs]. destruct (N.testbit (castling g) 0), (f =? 60), (f =? 63), (t =? 60), (t =? 63); reflexivity.
  - rewrite !N.land_spec. fold f t. rewrite F1, T1. cbn [cQ abs]. destruct (N.testbit (castling g) 1), (f =? 60), (f =? 56), (t =? 60), (t =? 56); reflexivity.
  - rewrite !N.land_spec. fold f t. rewrite F2, T2. cbn [ck abs]. destruct (N.testbit (castling g) 2), (f =? 4), (f =? 7), (t =? 4), (t =? 7); reflexivity.
  - rewrite !N.land_spec. fold f t. rewrite F3, T3. cbn [cq abs]. destruct (N.testbit (castling g) 3), (f =? 4), (f =? 0), (t =? 4), (t =? 0); reflexivity.
  - (* the new en-passant square *)
    change (sfrom (umove m)) with (sq_of_idx f). change (sto (umove m)) with (sq_of_idx t).
    change (snd (sq_of_idx t)) with (rowZ t). change (snd (sq_of_idx f)) with (rowZ f). change (fst (sq_of_idx f)) with (colZ f).
    rewrite stm_abs. fold t w.
    destruct (mdp m) eqn:DP.
    + destruct (k_dp g m K DP) as (CAP & _ & PP & _ & REL). pose proof (g_dp g m RG DP) as DR. fold w t in DR, REL. fold p in PP. fold w in PP.
      assert (PW : (p =? WP) || (p =? BP) = true) by (rewrite PP; destruct w; reflexivity). rewrite PW. cbn [andb].
      pose proof F64 as FF. pose proof T64 as TT.
      destruct w; fold f in REL.
      * assert (NE : (t + 8 =? NOSQ) = false) by (apply N.eqb_neq; unfold NOSQ; lia). rewrite NE.
        destruct (push_geo_spec t TT) as (_ & P16). rewrite REL in FF. destruct (P16 FF) as (C16 & R16).
        destruct (push_geo_spec t TT) as (P8 & _). destruct (P8 ltac:(lia)) as (C8 & R8).
        rewrite REL. rewrite R16. replace (Z.abs (rowZ t - (rowZ t - 2)))%Z with 2%Z by lia. cbn [Z.eqb Pos.eqb fwd colr].
        rewrite (sq_eta (t + 8)), C16, C8, R8. f_equal. f_equal. lia.
      * assert (NE : (t - 8 =? NOSQ) = false) by (apply N.eqb_neq; unfold NOSQ; lia). rewrite NE.
        rewrite REL in TT |- *. replace (f + 16 - 8) with (f + 8) by lia.
        destruct (push_geo_spec f FF) as (P8 & P16). destruct (P16 TT) as (C16 & R16). destruct (P8 ltac:(lia)) as (C8 & R8).
        rewrite R16. replace (Z.abs (rowZ f - 2 - rowZ f))%Z with 2%Z by lia. cbn [Z.eqb Pos.eqb fwd colr].
        rewrite (sq_eta (f + 8)), C8, R8. reflexivity.
    + change (NOSQ =? NOSQ) with true. cbn iota.
      destruct ((p =? WP) || (p =? BP)) eqn:PW; [|reflexivity]. cbn [andb].
      assert (PP : mpiece m = WP \/ mpiece m = BP) by (apply orb_true_iff in PW; destruct PW as [X|X]; apply N.eqb_eq in X; fold p; auto).
      assert (X : (Z.abs (rowZ t - rowZ f) =? 2)%Z = false); [|rewrite X; reflexivity].
      apply Z.eqb_neq. pose proof F64 as FF. pose proof T64 as TT.
      destruct (mcap m) eqn:CAP.
      * pose proof (mg_pcap g m G PP CAP) as A. fold f t w in A. destruct (pawn_geo w f t FF TT A) as (_ & _ & _ & _ & AB). lia.
      * destruct (mg_push g m G PP CAP) as [(_ & REL)|(Y & _)]; [|congruence]. fold w f t in REL. destruct w.
        -- rewrite REL in FF |- *. destruct (proj1 (push_geo_spec t TT) FF) as (_ & R8). rewrite R8. lia.
        -- rewrite REL in TT |- *. destruct (proj1 (push_geo_spec f FF) TT) as (_ & R8). rewrite R8. lia.
  - (* half-move clock *)
    fold p. cbn [hmc abs]. destruct ((p =? WP) || (p =? BP) || mcap m); [reflexivity|].
    rewrite N.mod_small by lia. lia.
  - (* full-move number *)
    rewrite stm_abs. fold w. cbn [fmn abs]. destruct w; cbn [colr]; [reflexivity|]. rewrite N.mod_small by lia. lia.
Qed.
(* the same without the clocks: no bound on them is needed *)
Theorem make_abs_core : core (abs g') = core (apply (abs g) (umove m)).
Proof.
  destruct (make_scalars g m g' H) as (SW & SH & SF & SC & SE).
  unfold core, apply. cbn zeta. rewrite is_pawn_eq, capture_eq.
  unfold rights_after. cbn [board stm cK cQ ck cq epsq].
  change (4, 0)%Z with (sq_of_idx 60). change (7, 0)%Z with (sq_of_idx 63). change (0, 0)%Z with (sq_of_idx 56).
  change (4, 7)%Z with (sq_of_idx 4). change (7, 7)%Z with (sq_of_idx 7). change (0, 7)%Z with (sq_of_idx 0).
  rewrite !(touch_eq 60 ltac:(lia)), !(touch_eq 63 ltac:(lia)), !(touch_eq 56 ltac:(lia)), !(touch_eq 4 ltac:(lia)), !(touch_eq 7 ltac:(lia)), !(touch_eq 0 ltac:(lia)).
  rewrite <- board_eq.
  change (stm (abs g')) with (if white g' then White else Black). change (cK (abs g')) with (N.testbit (castling g') 0).
  change (cQ (abs g')) with (N.testbit (castling g') 1). change (ck (abs g')) with (N.testbit (castling g') 2). change (cq (abs g')) with (N.testbit (castling g') 3).
  change (epsq (abs g')) with (if N.eqb (ep g') NOSQ then None else Some (sq_of_idx (ep g'))).
  rewrite SW, SC, SE.
  destruct (cr_spec f F64) as (F0 & F1 & F2 & F3). destruct (cr_spec t T64) as (T0 & T1 & T2 & T3).
  f_equal.
  - fold w. rewrite stm_abs. destruct w; reflexivity.
  - rewrite !N.land_spec. fold f t. rewrite F0, T0. cbn [cK abs]. destruct (N.testbit (castling g) 0), (f =? 60), (f =? 63), (t =? 60), (t =? 63); reflexivity.
  - rewrite !N.land_spec. fold f t. rewrite F1, T1. cbn [cQ abs]. destruct (N.testbit (castling g) 1), (f =? 60), (f =? 56), (t =? 60), (t =? 56); reflexivity.
  - rewrite !N.land_spec. fold f t. rewrite F2, T2. cbn [ck abs]. destruct (N.testbit (castling g) 2), (f =? 4), (f =? 7), (t =? 4), (t =? 7); reflexivity.
  - rewrite !N.land_spec. fold f t. rewrite F3, T3. cbn [cq abs]. destruct (N.testbit (castling g) 3), (f =? 4), (f =? 0), (t =? 4), (t =? 0); reflexivity.
  - (* the new en-passant square *)
    change (sfrom (umove m)) with (sq_of_idx f). change (sto (umove m)) with (sq_of_idx t).
    change (snd (sq_of_idx t)) with (rowZ t). change (snd (sq_of_idx f)) with (rowZ f). change (fst (sq_of_idx f)) with (colZ f).
    rewrite stm_abs. fold t w.
    destruct (mdp m) eqn:DP.
    + destruct (k_dp g m K DP) as (CAP & _ & PP & _ & REL). pose proof (g_dp g m RG DP) as DR. fold w t in DR, REL. fold p in PP. fold w in PP.
      assert (PW : (p =? WP) || (p =? BP) = true) by (rewrite PP; destruct w; reflexivity). rewrite PW. cbn [andb].
      pose proof F64 as FF. pose proof T64 as TT.
      destruct w; fold f in REL.
      * assert (NE : (t + 8 =? NOSQ) = false) by (apply N.eqb_neq; unfold NOSQ; lia). rewrite NE.
        destruct (push_geo_spec t TT) as (_ & P16). rewrite REL in FF. destruct (P16 FF) as (C16 & R16).
        destruct (push_geo_spec t TT) as (P8 & _). destruct (P8 ltac:(lia)) as (C8 & R8).
        rewrite REL. rewrite R16. replace (Z.abs (rowZ t - (rowZ t - 2)))%Z with 2%Z by lia. cbn [Z.eqb Pos.eqb fwd colr].
        rewrite (sq_eta (t + 8)), C16, C8, R8. f_equal. f_equal. lia.
      * assert (NE : (t - 8 =? NOSQ) = false) by (apply N.eqb_neq; unfold NOSQ; lia). rewrite NE.
        rewrite REL in TT |- *. replace (f + 16 - 8) with (f + 8) by lia.
        destruct (push_geo_spec f FF) as (P8 & P16). destruct (P16 TT) as (C16 & R16). destruct (P8 ltac:(lia)) as (C8 & R8).
        rewrite R16. replace (Z.abs (rowZ f - 2 - rowZ f))%Z with 2%Z by lia. cbn [Z.eqb Pos.eqb fwd colr].
        rewrite (sq_eta (f + 8)), C8, R8. reflexivity.
    + change (NOSQ =? NOSQ) with true. cbn iota.
      destruct ((p =? WP) || (p =? BP)) eqn:PW; [|reflexivity]. cbn [andb].
      assert (PP : mpiece m = WP \/ mpiece m = BP) by (apply orb_true_iff in PW; destruct PW as [X|X]; apply N.eqb_eq in X; fold p; auto).
      assert (X : (Z.abs (rowZ t - rowZ f) =? 2)%Z = false); [|rewrite X; reflexivity].
      apply Z.eqb_neq. pose proof F64 as FF. pose proof T64 as TT.
      destruct (mcap m) eqn:CAP.
      * pose proof (mg_pcap g m G PP CAP) as A. fold f t w in A. destruct (pawn_geo w f t FF TT A) as (_ & _ & _ & _ & AB). lia.
      * destruct (mg_push g m G PP CAP) as [(_ & REL)|(Y & _)]; [|congruence]. fold w f t in REL. destruct w.
        -- rewrite REL in FF |- *. destruct (proj1 (push_geo_spec t TT) FF) as (_ & R8). rewrite R8. lia.
        -- rewrite REL in TT |- *. destruct (proj1 (push_geo_spec f FF) TT) as (_ & R8). rewrite R8. lia.
Qed.
End Refine.

(* C02: the made position is the successor the rules prescribe *)
Theorem make_is_spec_apply g all m g' : legal_inv g -> half g < 255 -> full g < 65535 -> In m (generate_moves g all) ->
  make_search_move g m = Made g' -> abs g' = apply (abs g) (umove m).
Proof. intros LI HH HF HI H. exact (make_abs g all m g' LI HI H HH HF). Qed.
Print Assumptions make_is_spec_apply.
