(* C14 (sequential semantics): for every position satisfying the invariant and every depth >= 1, the model's perft -- bulk
   counting with is_legal at depth 1, make-and-recurse above -- is the number of legal move sequences of that length under the
   rules (ChessSpec.perft over ChessSpec.legal_moves / ChessSpec.apply). *)
From Coq Require Import NArith ZArith List Bool Lia Permutation.
From JV Require Import Gen.Consts Model.Bits Model.Chess Model.Abs Model.SearchChess Spec.ChessSpec Spec.SpecCore
  Proofs.MoveGenProofs Proofs.LegalInv Proofs.AbsMake Proofs.Soundness Proofs.Rejected Proofs.Complete Proofs.UmoveInj Proofs.Exact.
Import ListNotations.

Lemma legal_perm g : legal_inv g -> Permutation (map umove (legal_values g (generate_moves g true))) (ChessSpec.legal_moves (abs g)).
Proof.
  intros LI. apply NoDup_Permutation; [apply legal_values_NoDup; exact LI|apply legal_moves_NoDup|]. intros x. apply legal_set_exact. exact LI.
Qed.

Definition contrib (k : nat) (g : game) (m : move) : N := match make_search_move g m with Made g' => Chess.perft k g' | _ => 0%N end.

Lemma fold_contrib k g l : forall a,
  Z.of_N (fold_left (fun acc m => match make_search_move g m with Made g' => (acc + Chess.perft k g')%N | _ => acc end) l a) =
  (Z.of_N a + sumZ (map (fun m => Z.of_N (contrib k g m)) l))%Z.
Proof.
  induction l as [|m l IH]; intros a; cbn [fold_left map sumZ fold_right]; [lia|].
  fold (sumZ (map (fun m0 => Z.of_N (contrib k g m0)) l)).
  assert (E : Z.of_N (contrib k g m) = match make_search_move g m with Made g' => Z.of_N (Chess.perft k g') | _ => 0%Z end)
    by (unfold contrib; destruct (make_search_move g m); reflexivity).
  rewrite E. destruct (make_search_move g m); rewrite IH; generalize (sumZ (map (fun m0 => Z.of_N (contrib k g m0)) l)); intros S; rewrite ?N2Z.inj_add; ring.
Qed.

Lemma sumZ_filter {A} (h : A -> Z) (P : A -> bool) l : (forall x, In x l -> P x = false -> h x = 0%Z) -> sumZ (map h l) = sumZ (map h (filter P l)).
Proof.
  unfold sumZ. induction l as [|x l IH]; intros Z0; [reflexivity|]. cbn [map filter fold_right].
  rewrite IH by (intros y Hy; apply Z0; right; exact Hy).
  destruct (P x) eqn:E; [reflexivity|]. rewrite (Z0 x (or_introl eq_refl) E). apply Z.add_0_l.
Qed.

Lemma sumZ_ones {A} (l : list A) : sumZ (map (fun _ => 1%Z) l) = Z.of_nat (length l).
Proof. unfold sumZ. induction l as [|x l IH]; [reflexivity|]. cbn [map fold_right length]. rewrite IH. lia. Qed.

Lemma perft_SS k g : Chess.perft (S (S k)) g =
  fold_left (fun acc m => match make_search_move g m with Made g' => (acc + Chess.perft (S k) g')%N | _ => acc end) (generate_moves g true) 0%N.
Proof. reflexivity. Qed.

Theorem perft_exact k : forall g, legal_inv g -> Z.of_N (Chess.perft (S k) g) = ChessSpec.perft (S k) (abs g).
Proof.
  induction k as [|k IH]; intros g LI.
  - (* bulk counting *)
    change (Chess.perft 1 g) with (bulk_count g (generate_moves g true)). unfold bulk_count.
    rewrite perft_S. cbn [ChessSpec.perft]. rewrite sumZ_ones, nat_N_Z.
    rewrite <- (Permutation_length (legal_perm g LI)), map_length. reflexivity.
  - rewrite perft_SS, fold_contrib, perft_S. cbn [Z.of_N Z.add].
    rewrite (sumZ_filter _ (is_legal g)).
    + rewrite <- (sumZ_perm _ _ (Permutation_map (fun m => ChessSpec.perft (S k) (apply (abs g) m)) (legal_perm g LI))).
      rewrite map_map. f_equal. apply map_ext_in. intros m Hm. unfold legal_values in Hm. apply filter_In in Hm. destruct Hm as [HI IL].
      apply (is_legal_accepts g true m HI LI) in IL. destruct IL as (g' & M). unfold contrib. rewrite M.
      rewrite (IH g' (legal_step g true m g' LI HI ltac:(unfold c_make; rewrite M; reflexivity))).
      apply perft_core. apply (make_abs_core g true m g' LI HI M).
    + intros m HI IL. unfold contrib. destruct (make_search_move g m) as [| g' |] eqn:M; try reflexivity.
      exfalso. assert (X : is_legal g m = true) by (apply (is_legal_accepts g true m HI LI); exists g'; exact M). congruence.
Qed.
Print Assumptions perft_exact.

(* the form the driver's monitor uses *)
Theorem perft_n_exact d g : legal_inv g -> (1 <= d)%N -> Z.of_N (perft_n d g) = spec_perft d g.
Proof.
  intros LI D. unfold perft_n, spec_perft. destruct (N.to_nat d) as [|k] eqn:E; [lia|]. apply perft_exact. exact LI.
Qed.
