(* C02 (part): what make_search_move does to the scalar fields, for EVERY position and move. *)
From Coq Require Import NArith List Bool Lia.
From JV Require Import Gen.Consts Model.Bits Model.Chess.
Import ListNotations.
Local Open Scope N_scope.

Ltac break_made H :=
  repeat match type of H with
         | context [let '(_, _) := ?X in _] => destruct X
         | context [match ?X with Some _ => _ | None => _ end] => destruct X
         | context [if ?X then _ else _] => destruct X eqn:?
         end.

Lemma make_scalars g m g' : make_search_move g m = Made g' ->
  white g' = negb (white g) /\
  half g' = (if (mpiece m =? WP) || (mpiece m =? BP) || mcap m then 0 else (half g + 1) mod 256) /\
  full g' = (if white g then full g else (full g + 1) mod 65536) /\
  castling g' = N.land (castling g) (N.land (nthN CASTLING_RIGHTS (mto m)) (nthN CASTLING_RIGHTS (mfrom m))) /\
  ep g' = (if mdp m then (if white g then mto m + 8 else mto m - 8) else NOSQ).
Proof.
  unfold make_search_move. cbn zeta. intros H.
  destruct (white g) eqn:W; destruct (mdp m) eqn:DP;
  destruct ((mpiece m =? WP) || (mpiece m =? BP) || mcap m) eqn:PC;
  break_made H; try discriminate; injection H as <-; cbn [white half full castling ep]; repeat split; reflexivity.
Qed.
