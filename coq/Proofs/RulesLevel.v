(* From "generated and accepted by make" to "legal under the rules": the PV lines and best moves of C12 / C03, through C01's
   exactness and C02's successor refinement (without the clocks). *)
From Coq Require Import NArith ZArith List Bool Lia.
From JV Require Import Gen.Consts Model.Bits Model.Chess Model.Abs Model.SearchChess Model.Search Model.Monitors Spec.ChessSpec Spec.SpecCore
  Proofs.MoveGenProofs Proofs.LegalInv Proofs.AbsMake Proofs.Soundness Proofs.Exact Proofs.SearchPV.
Import ListNotations.

Lemma legal_line_core l : forall p q, core p = core q -> legal_line p l = legal_line q l.
Proof.
  induction l as [|m r IH]; intros p q E; [reflexivity|]. cbn [legal_line].
  rewrite <- (legal_moves_core p), <- (legal_moves_core q), E. f_equal.
  apply IH. rewrite <- (apply_core p m), <- (apply_core q m), E. reflexivity.
Qed.

Lemma in_existsb_smove x l : In x l -> existsb (smove_eqb x) l = true.
Proof. intros H. apply existsb_exists. exists x. split; [exact H|apply smove_eqb_eq; reflexivity]. Qed.

Definition chess_line := line_ok game move generate_moves c_make.

Theorem line_is_legal_line pv : forall g, legal_inv g -> chess_line g pv -> mon_pv g pv = true.
Proof.
  unfold mon_pv. induction pv as [|m r IH]; intros g LI L; [reflexivity|].
  cbn [chess_line line_ok] in L. destruct L as (HI & g' & M & L').
  unfold c_make in M. destruct (make_search_move g m) as [|g''|] eqn:E; try discriminate M. injection M as ->.
  cbn [map legal_line]. apply andb_true_iff. split.
  - apply in_existsb_smove. exact (accepted_in_legal_moves g true m g' LI HI E).
  - rewrite <- (legal_line_core (map umove r) (abs g') (apply (abs g) (umove m)) (make_abs_core g true m g' LI HI E)).
    apply IH; [|exact L']. apply (legal_step g true m g' LI HI). unfold c_make. rewrite E. reflexivity.
Qed.

Lemma spec_has_legal_model g : legal_inv g -> spec_has_legal g = true -> Chess.legal_moves g <> [].
Proof.
  intros LI H. unfold spec_has_legal in H. destruct (ChessSpec.legal_moves (abs g)) as [|sm l] eqn:E; [discriminate H|].
  assert (X : In sm (map umove (legal_values g (generate_moves g true)))) by (apply (legal_set_exact g sm LI); rewrite E; left; reflexivity).
  unfold Chess.legal_moves. intros Z. rewrite Z in X. destruct X.
Qed.

Lemma model_legal_is_rules_legal g m : legal_inv g -> In m (Chess.legal_moves g) -> mon_bestmove g m = true.
Proof.
  intros LI H. unfold mon_bestmove.
  assert (X : In (umove m) (ChessSpec.legal_moves (abs g))) by (apply (legal_set_exact g (umove m) LI); apply in_map; exact H).
  destruct (ChessSpec.legal_moves (abs g)) as [|a l] eqn:E; [reflexivity|]. apply in_existsb_smove. exact X.
Qed.

(* ---- C06: the terminal verdicts are the rules' verdicts ---- *)
From Coq Require Import Permutation.
From JV Require Import Proofs.AttackSpec.

Lemma no_accepted_no_legal g ms : legal_inv g -> Permutation ms (generate_moves g true) -> Forall (fun m => c_make g m = None) ms ->
  ChessSpec.legal_moves (abs g) = [].
Proof.
  intros LI P F. destruct (ChessSpec.legal_moves (abs g)) as [|sm l] eqn:E; [reflexivity|]. exfalso.
  assert (L : legalb (abs g) sm = true).
  { assert (X : In sm (ChessSpec.legal_moves (abs g))) by (rewrite E; left; reflexivity). unfold ChessSpec.legal_moves in X. apply filter_In in X. tauto. }
  destruct (legal_is_accepted g sm LI L) as (m & g' & HI & _ & M).
  rewrite Forall_forall in F. pose proof (F m (Permutation_in _ (Permutation_sym P) HI)) as X. unfold c_make in X. rewrite M in X. discriminate.
Qed.

Theorem verdict_is_the_rules_verdict g ms : legal_inv g -> Permutation ms (generate_moves g true) -> Forall (fun m => c_make g m = None) ms ->
  checkmate (abs g) = is_in_check g (white g) /\ stalemate (abs g) = negb (is_in_check g (white g)).
Proof.
  intros LI P F. unfold checkmate, stalemate. rewrite (no_accepted_no_legal g ms LI P F), !andb_true_r.
  destruct LI as (C & KG & R & _). rewrite (in_check_model g (stm (abs g)) C R KG). rewrite (stm_abs g), wb_colr. unfold is_in_check. auto.
Qed.
