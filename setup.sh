#!/bin/bash
# Build the framework from files on disk only (offline): engine with hooks, generated constants, all Coq files, extracted model.
set -e
cd "$(dirname "$0")"
export CARGO_NET_OFFLINE=true
python3 - <<'PY'
import sys, os
sys.path.insert(0, 'tools')
import vlib
ctx = vlib.Ctx('SETUP', 'quick', 0)
ctx.build_engine()
ctx.gen_consts()
ctx.ensure_makefile()
out = ctx.make(['all'], timeout=7200)
ctx.build_model()
print('setup ok')
PY
