// In-crate verification driver for JENChessEngine. Mounted by
//   #[cfg(jence_verif)] mod verif_driver { include!(concat!(env!("JENCE_VERIF_DRIVER_DIR"), "/driver.rs")); }
// in src/main.rs.  Lives in /verif/harness; never compiled without --cfg jence_verif.
//
// Invocation:  nebel_chess_engine --verif <mode> [args]
//   consts              dump constants only the compiled crate knows
//   batch               one request per stdin line, one answer per stdout line
//   session <file>      run the real UCI main loop on a scripted input (file: "<delay> <line>" per line)

use super::*;
use std::cell::RefCell;
use std::io::{BufRead, Write};
use std::fmt::Write as FmtWrite;

// ---------------------------------------------------------------------------------------------
// hook state
// ---------------------------------------------------------------------------------------------

pub struct HookState {
    pub active: bool,           // search stream active: polls are scripted, events recorded
    pub trace: bool,            // record node / hit / verdict / pv / tt events
    pub stop_at: i64,           // the k-th poll (0-based) observes a stop; -1 = never
    pub extra_every: u64,       // extra polls at node counts n with n % extra_every == 0 (0 = none)
    pub npolls: u64,
    pub last_poll_nodes: u64,   // node counter at the most recent poll (0 before the first)
    pub max_gap: u64,           // largest number of nodes between consecutive polls so far
    pub stop_raised: bool,
    pub bypass_tt: bool,
    pub intercept: bool,        // on_search_entry returns without searching
    pub entry: Option<(i8, i64)>,
    pub events: String,
    pub nevents: u64,
    pub end: String,
}

thread_local! {
    static HS: RefCell<HookState> = RefCell::new(HookState {
        active: false, trace: false, stop_at: -1, extra_every: 0, npolls: 0, last_poll_nodes: 0, max_gap: 0, stop_raised: false,
        bypass_tt: false, intercept: false, entry: None, events: String::new(), nevents: 0, end: String::new() });
    static SCRIPT: RefCell<Option<Script>> = RefCell::new(None);
}

fn ev(s: &str) {
    HS.with(|h| { let mut h = h.borrow_mut(); if h.trace { h.events.push_str(s); h.events.push('\n'); h.nevents += 1; } });
}

pub fn game_fields(g: &Game) -> String {
    let mut s = String::new();
    for i in 0..12 { write!(s, "{:x} ", g.bitboards[i].to_u64()).unwrap(); }
    write!(s, "{:x} {:x} {:x} {} {} {} {} {} {:x}",
        g.white_occupancies.to_u64(), g.black_occupancies.to_u64(), g.all_occupancies.to_u64(),
        if g.active_player == Color::White { 1 } else { 0 }, g.enpassant_square as u8, g.castling_ability,
        g.half_moves, g.full_moves, g.zobrist_hash).unwrap();
    s
}

pub fn move_fields(m: &Move) -> String {
    format!("{}:{}:{}:{}:{}{}{}{}", m.from_square(), m.to_square(), m.piece(), m.promotion(),
        m.is_capture() as u8, m.is_double_push() as u8, m.is_enpassant() as u8, m.is_castling() as u8)
}

pub fn on_search_entry(depth: i8, max_time: i64) -> Option<SearchResult> {
    HS.with(|h| {
        let mut h = h.borrow_mut();
        h.entry = Some((depth, max_time));
        if h.intercept { Some(SearchResult::new(NULL_MOVE, 0, 0, 0, true, 0)) } else { None }
    })
}

pub fn on_search_end(e: &SearchEnv) {
    let active = HS.with(|h| h.borrow().active);
    if !active { return; }
    let mut s = String::new();
    write!(s, "END ply={} rep={} stopping={} nodes={} pvlen={} pv=", e.ply, e.repetition_table.index, e.stopping as u8, e.nodes, e.pv_lengths[0]).unwrap();
    for i in 0..e.pv_lengths[0].min(64) { write!(s, "{},", move_fields(&e.pv_table[0][i])).unwrap(); }
    write!(s, " best={}", move_fields(&e.pv_table[0][0])).unwrap();
    let (lp, mg) = HS.with(|h| { let h = h.borrow(); (h.last_poll_nodes, h.max_gap) });
    write!(s, " maxgap={}", mg.max((e.nodes as u64).saturating_sub(lp))).unwrap();
    HS.with(|h| h.borrow_mut().end = s);
}

pub fn on_node(kind: u8, g: &Game, depth: u8, alpha: i32, beta: i32, e: &SearchEnv) {
    let tr = HS.with(|h| h.borrow().trace);
    if !tr { return; }
    // rep: index and the slot the repetition test would read
    let idx = e.repetition_table.index;
    let slot = if idx < 1000 { e.repetition_table.table[idx] } else { 0 };
    ev(&format!("N{} ply={} d={} a={} b={} n={} s={} ri={} rs={:x} g={}", kind, e.ply, depth, alpha, beta, e.nodes, e.stopping as u8, idx, slot, game_fields(g)));
}

pub fn on_tt_hit(score: i32) { ev(&format!("TTHIT {}", score)); }
pub fn on_rep_hit() { ev("REPHIT"); }
pub fn on_verdict(in_check: bool, ply: u8) { ev(&format!("VERDICT {} {}", if in_check { "mate" } else { "stalemate" }, ply)); }
pub fn on_pv_insert(ply: usize, m: Move) { ev(&format!("PV {} {}", ply, move_fields(&m))); }
pub fn on_tt_record(hash: u64, score: i32, depth: u8, flag: HashFlag, ply: u8) {
    let tr = HS.with(|h| h.borrow().trace);
    if !tr { return; }
    let f = match flag { HashFlag::Alpha => "A", HashFlag::Beta => "B", HashFlag::Exact => "E" };
    ev(&format!("TTREC {:x} {} {} {} {}", hash, score, depth, f, ply));
}
pub fn tt_bypass() -> bool { HS.with(|h| h.borrow().bypass_tt) }

pub fn extra_poll(nodes: u64) -> bool {
    // in a search stream: active + extra_every; in a scripted session: extra_every alone (set from JENCE_VERIF_EXTRA)
    HS.with(|h| {
        let h = h.borrow();
        h.extra_every != 0 && (nodes & 16383 != 0) && nodes % h.extra_every == 0
    })
}

// Some(stop) => the scripted answer for this poll; None => the engine's own clock/channel logic runs
pub fn on_poll(nodes: u64, stopping: bool) -> Option<bool> {
    HS.with(|h| {
        let mut h = h.borrow_mut();
        if !h.active { return None; }
        let k = h.npolls;
        h.npolls += 1;
        let gap = nodes.saturating_sub(h.last_poll_nodes);
        if gap > h.max_gap { h.max_gap = gap; }
        h.last_poll_nodes = nodes;
        let stop = h.stop_at >= 0 && (k as i64) >= h.stop_at;
        if h.trace {
            let line = format!("POLL {} n={} stop={}", k, nodes, stop as u8);
            h.events.push_str(&line); h.events.push('\n'); h.nevents += 1;
            if stop && !stopping && !h.stop_raised { h.events.push_str("STOPRAISED\n"); h.nevents += 1; }
        }
        if stop { h.stop_raised = true; }
        Some(stop)
    })
}

// ---------------------------------------------------------------------------------------------
// scripted input for the real main loop (mode "session")
// ---------------------------------------------------------------------------------------------

pub struct Script {
    pub lines: Vec<(u64, String)>,   // (delay in polls, line)
    pub next: usize,
    pub polls_waited: u64,
    pub eof_reads: u64,
}

pub fn scripted_read_line() -> Option<String> {
    SCRIPT.with(|s| {
        let mut s = s.borrow_mut();
        match s.as_mut() {
            None => None,
            Some(sc) => {
                if sc.next < sc.lines.len() {
                    let l = sc.lines[sc.next].1.clone();
                    sc.next += 1; sc.polls_waited = 0;
                    println!("@READ {}", l);
                    Some(l.trim().to_string())
                } else {
                    // the script (which ends with the reader thread's end-of-input "quit") is exhausted and the main loop still reads:
                    // the real channel would be disconnected here
                    println!("@READ-PAST-END");
                    std::io::stdout().flush().unwrap();
                    std::process::exit(3);
                }
            }
        }
    })
}

pub fn scripted_try_read_line() -> Option<Option<String>> {
    SCRIPT.with(|s| {
        let mut s = s.borrow_mut();
        match s.as_mut() {
            None => None,
            Some(sc) => {
                if sc.next < sc.lines.len() {
                    if sc.polls_waited >= sc.lines[sc.next].0 {
                        let l = sc.lines[sc.next].1.clone();
                        sc.next += 1; sc.polls_waited = 0;
                        println!("@POLLREAD {}", l);
                        Some(Some(l.trim().to_string()))
                    } else {
                        sc.polls_waited += 1;
                        Some(None)
                    }
                } else {
                    Some(None)      // channel empty (and disconnected): try_recv fails
                }
            }
        }
    })
}

// ---------------------------------------------------------------------------------------------
// request parsing helpers
// ---------------------------------------------------------------------------------------------

fn hx(s: &str) -> u64 { u64::from_str_radix(s, 16).unwrap() }

fn parse_game(t: &[&str]) -> Game {
    let mut bbs = [Bitboard::new(); 12];
    for i in 0..12 { bbs[i] = Bitboard::from_u64(hx(t[i])); }
    Game {
        bitboards: bbs,
        white_occupancies: Bitboard::from_u64(hx(t[12])),
        black_occupancies: Bitboard::from_u64(hx(t[13])),
        all_occupancies: Bitboard::from_u64(hx(t[14])),
        active_player: if t[15] == "1" { Color::White } else { Color::Black },
        enpassant_square: SQUARES[t[16].parse::<usize>().unwrap()],
        castling_ability: t[17].parse::<u8>().unwrap(),
        half_moves: t[18].parse::<u8>().unwrap(),
        full_moves: t[19].parse::<u16>().unwrap(),
        zobrist_hash: hx(t[20]),
    }
}
const GAME_TOKENS: usize = 21;

fn catch<F: FnOnce() -> String + std::panic::UnwindSafe>(f: F) -> String {
    match std::panic::catch_unwind(f) {
        Ok(s) => s,
        Err(_) => "PANIC".to_string(),
    }
}

// ---------------------------------------------------------------------------------------------
// streams
// ---------------------------------------------------------------------------------------------

fn do_consts() {
    println!("TT_SIZE {}", TT_SIZE);
    println!("UNKNOWN_SCORE {}", UNKNOWN_SCORE);
    println!("MATE_VALUE {}", MATE_VALUE);
    println!("MATE_BOUND {}", MATE_BOUND);
    println!("SIDE_KEY {:x}", SIDE_KEY);
    for p in 0..12 { for s in 0..64 { println!("PIECE_KEY {} {} {:x}", p, s, PIECE_KEYS[p][s]); } }
    for s in 0..64 { println!("ENPASSANT_KEY {} {:x}", s, ENPASSANT_KEYS[s]); }
    for s in 0..16 { println!("CASTLE_KEY {} {:x}", s, CASTLE_KEYS[s]); }
}

// tt <ops...>: R hash score depth flag ply | P hash depth alpha beta ply | C   (a fresh-cleared shared table)
fn do_tt(t: &[&str], tt: &mut TranspositionTable) -> String {
    let mut out = String::new();
    let mut i = 0;
    tt.clear();
    while i < t.len() {
        match t[i] {
            "R" => {
                let flag = match t[i+4] { "A" => HashFlag::Alpha, "B" => HashFlag::Beta, _ => HashFlag::Exact };
                tt.record(hx(t[i+1]), t[i+2].parse().unwrap(), t[i+3].parse().unwrap(), flag, t[i+5].parse().unwrap());
                i += 6;
            }
            "P" => {
                let r = tt.probe(hx(t[i+1]), t[i+2].parse().unwrap(), t[i+3].parse().unwrap(), t[i+4].parse().unwrap(), t[i+5].parse().unwrap());
                if r == UNKNOWN_SCORE { out.push_str("U ") } else { write!(out, "{} ", r).unwrap() }
                i += 6;
            }
            "C" => { tt.clear(); i += 1; }
            _ => { return format!("BADOP {}", t[i]); }
        }
    }
    out.trim_end().to_string()
}

// go <side> <args...>: run the real parse_go with the search-entry intercept; answer "depth max_time" or NOSEARCH / PANIC
fn do_go(t: &[&str], tt: &mut TranspositionTable) -> String {
    let side = t[0];
    let args = format!(" {}", t[1..].join(" "));
    let mut game = Game::new_from_start_pos();
    if side == "0" { game.active_player = Color::Black; }
    HS.with(|h| { let mut h = h.borrow_mut(); h.intercept = true; h.entry = None; });
    let io = IoWrapper::verif_detached();
    let mut rep = RepetitionTable::new();
    let r = std::panic::catch_unwind(std::panic::AssertUnwindSafe(|| {
        parse_go(args, &mut game, &io, tt, &mut rep);
    }));
    let e = HS.with(|h| { let mut h = h.borrow_mut(); h.intercept = false; h.entry.take() });
    match (r, e) {
        (Err(_), _) => "PANIC".to_string(),
        (Ok(_), None) => "NOSEARCH".to_string(),
        (Ok(_), Some((d, mt))) => format!("{} {}", d, mt),
    }
}

// att <sq> <occ>: the seven public attack getters
fn do_att(t: &[&str]) -> String {
    let sq: u8 = t[0].parse().unwrap();
    let occ = Bitboard::from_u64(hx(t[1]));
    format!("{:x} {:x} {:x} {:x} {:x} {:x} {:x}",
        get_rook_attack_table(sq, occ).to_u64(), get_bishop_attack_table(sq, occ).to_u64(), get_queen_attack_table(sq, occ).to_u64(),
        get_knight_attack_table(sq).to_u64(), get_king_attack_table(sq).to_u64(),
        get_pawn_attack_table(sq, Color::White).to_u64(), get_pawn_attack_table(sq, Color::Black).to_u64())
}

// pos <game>: everything the chess-core streams compare, in one line:
//   A <moves All in generation order> | Q <moves Quiescence> | L <is_legal bits for A> | LQ <bits for Q> |
//   M <for each A move: I or the 21 game fields joined by ','> | E <evaluate> | K <from-scratch key> | C <in check> | P1 <perft 1> P2 <perft 2>
fn do_pos(t: &[&str]) -> String {
    let mut g = parse_game(t);
    let mut out = String::new();
    let all = generate_moves(&mut g, MoveTypes::All);
    let q = generate_moves(&mut g, MoveTypes::Quiescence);
    out.push_str("A");
    for m in all.iter() { write!(out, " {}", move_fields(m)).unwrap(); }
    out.push_str(" | Q");
    for m in q.iter() { write!(out, " {}", move_fields(m)).unwrap(); }
    out.push_str(" | L ");
    for m in all.iter() { out.push(if is_legal(&g, m) { '1' } else { '0' }); }
    out.push_str(" | LQ ");
    for m in q.iter() { out.push(if is_legal(&g, m) { '1' } else { '0' }); }
    out.push_str(" | M");
    let mut mk = String::new();
    for m in all.iter() {
        let mut c = g;
        let mut rep = RepetitionTable::new();
        if make_search_move(&mut c, m, &mut rep) {
            write!(out, " {}", game_fields(&c).replace(" ", ",")).unwrap();
            if rep.index != 1 || rep.table[0] != c.zobrist_hash { out.push_str("!REP"); }
            write!(mk, " {:x}", c.make_zobrist_hash()).unwrap();
        } else { out.push_str(" I"); mk.push_str(" -"); }
    }
    out.push_str(" | MK"); out.push_str(&mk);
    write!(out, " | E {} | K {:x} | C {}", evaluate(&g), g.make_zobrist_hash(), g.is_in_check(g.active_player) as u8).unwrap();
    let p1 = perft(&mut g, 1, false);
    let p2 = perft(&mut g, 2, false);
    write!(out, " | P {} {}", p1, p2).unwrap();
    out
}

// perft <depth> <game>
fn do_perft(t: &[&str]) -> String {
    let d: u8 = t[0].parse().unwrap();
    let mut g = parse_game(&t[1..]);
    format!("{}", perft(&mut g, d, false))
}

// eval4 <game>: evaluate only
fn do_eval(t: &[&str]) -> String {
    let g = parse_game(t);
    format!("{}", evaluate(&g))
}

// ---- stdout capture (the engine prints info/bestmove lines with print!) ----
extern "C" { fn dup(fd: i32) -> i32; fn dup2(a: i32, b: i32) -> i32; fn close(fd: i32) -> i32; }

fn capture_stdout<F: FnOnce()>(f: F) -> (String, bool) {
    use std::os::unix::io::AsRawFd;
    let dir = std::env::var("JENCE_VERIF_TMP").unwrap_or("/tmp".to_string());
    let path = format!("{}/jence-cap-{}.txt", dir, std::process::id());
    std::io::stdout().flush().unwrap();
    let file = std::fs::File::create(&path).unwrap();
    let saved = unsafe { dup(1) };
    unsafe { dup2(file.as_raw_fd(), 1); }
    let r = std::panic::catch_unwind(std::panic::AssertUnwindSafe(f));
    let _ = std::io::stdout().flush();
    unsafe { dup2(saved, 1); close(saved); }
    drop(file);
    let text = std::fs::read_to_string(&path).unwrap_or_default();
    let _ = std::fs::remove_file(&path);
    (text, r.is_ok())
}

fn fnv(s: &str) -> u64 {
    let mut h: u64 = 0xcbf29ce484222325;
    for b in s.bytes() { h ^= b as u64; h = h.wrapping_mul(0x100000001b3); }
    h
}

fn mask_time(line: &str) -> String {
    // "... time 123 pv ..." -> "... time T pv ..."
    let toks: Vec<&str> = line.split(' ').collect();
    let mut out: Vec<String> = Vec::new();
    let mut i = 0;
    while i < toks.len() {
        if toks[i] == "time" && i + 1 < toks.len() { out.push("time".to_string()); out.push("T".to_string()); i += 2; }
        else { out.push(toks[i].to_string()); i += 1; }
    }
    out.join(" ")
}

// searchseq N { D S X B T H k1..kH <game> } x N : searches sharing one (initially empty) transposition table
fn do_searchseq(t: &[&str], tt: &mut TranspositionTable) -> String {
    let n: usize = t[0].parse().unwrap();
    let mut i = 1;
    let mut answers: Vec<String> = Vec::new();
    tt.clear();
    for _ in 0..n {
        let depth: i8 = t[i].parse().unwrap();
        let stop_at: i64 = t[i + 1].parse().unwrap();
        let extra: u64 = t[i + 2].parse().unwrap();
        let bypass = t[i + 3] == "1";
        let trace: u8 = t[i + 4].parse().unwrap();
        let nh: usize = t[i + 5].parse().unwrap();
        i += 6;
        let mut rep = RepetitionTable::new();
        for k in 0..nh { rep.insert(hx(t[i + k])); }
        i += nh;
        let mut game = parse_game(&t[i..i + GAME_TOKENS]);
        i += GAME_TOKENS;
        let before = game_fields(&game);
        let rep_before: Vec<u64> = rep.table[..rep.index].to_vec();
        HS.with(|h| { let mut h = h.borrow_mut();
            h.active = true; h.trace = trace > 0; h.stop_at = stop_at; h.extra_every = extra; h.npolls = 0; h.last_poll_nodes = 0; h.max_gap = 0; h.stop_raised = false;
            h.bypass_tt = bypass; h.intercept = false; h.events.clear(); h.nevents = 0; h.end.clear(); });
        let io = IoWrapper::verif_detached();
        let (text, ok) = capture_stdout(|| { search(&mut game, depth, -1, &io, tt, &mut rep); });
        let (events, nev, end) = HS.with(|h| { let mut h = h.borrow_mut(); h.active = false; h.trace = false; h.bypass_tt = false; h.extra_every = 0;
            (std::mem::take(&mut h.events), h.nevents, std::mem::take(&mut h.end)) });
        let native: Vec<String> = text.lines().map(|l| mask_time(l)).collect();
        let same = (game_fields(&game) == before) as u8;
        let rep_same = (rep.index == nh && rep.table[..nh] == rep_before[..]) as u8;
        let mut a = format!("{} || {} GAME_SAME={} REP_SAME={}{} || ", native.join(" ;; "), end, same, rep_same, if ok { "" } else { " PANIC" });
        if trace == 2 { a.push_str(&events.trim_end().replace("\n", " ;; ")); }
        else if trace == 1 { write!(a, "NEV={} H={:x}", nev, fnv(&events)).unwrap(); }
        answers.push(a);
    }
    answers.join(" ## ")
}

// fen <text>: Game::new_from_fen on the raw text (everything after "fen ")
fn do_fen(text: &str) -> String {
    let t = text.to_string();
    match std::panic::catch_unwind(move || Game::new_from_fen(t.as_str())) {
        Err(_) => "PANIC".to_string(),
        Ok(None) => "NONE".to_string(),
        Ok(Some(g)) => game_fields(&g),
    }
}

// position <text>: the private parse_position on the raw text with a cleared repetition table; answer: game fields | history keys
fn do_position(text: &str) -> String {
    let t = text.to_string();
    match std::panic::catch_unwind(move || {
        let mut rep = RepetitionTable::new();
        let p = parse_position(t, &mut rep);
        (p, rep.table[..rep.index].to_vec())
    }) {
        Err(_) => "PANIC".to_string(),
        Ok((None, _)) => "NONE".to_string(),
        Ok((Some(g), keys)) => format!("{} | {}", game_fields(&g), keys.iter().map(|k| format!("{:x}", k)).collect::<Vec<String>>().join(" ")),
    }
}

fn do_batch() {
    let stdin = std::io::stdin();
    let stdout = std::io::stdout();
    let mut out = std::io::BufWriter::new(stdout.lock());
    let mut tt = TranspositionTable::new();
    std::panic::set_hook(Box::new(|_| {}));
    for line in stdin.lock().lines() {
        let line = line.unwrap();
        let toks: Vec<&str> = line.split_whitespace().collect();
        if toks.is_empty() { continue; }
        // raw-text requests keep the exact spacing of the rest of the line
        if line.starts_with("fen ") { writeln!(out, "{}", do_fen(&line[4..])).unwrap(); continue; }
        if line.starts_with("position ") { writeln!(out, "{}", do_position(&line[9..])).unwrap(); continue; }
        let ans = match toks[0] {
            "tt" => do_tt(&toks[1..], &mut tt),
            "go" => do_go(&toks[1..], &mut tt),
            "att" => do_att(&toks[1..]),
            "searchseq" => do_searchseq(&toks[1..], &mut tt),
            "pos" => { let tk: Vec<String> = toks[1..].iter().map(|x| x.to_string()).collect(); catch(move || { let r: Vec<&str> = tk.iter().map(|x| x.as_str()).collect(); do_pos(&r) }) },
            "perft" => { let tk: Vec<String> = toks[1..].iter().map(|x| x.to_string()).collect(); catch(move || { let r: Vec<&str> = tk.iter().map(|x| x.as_str()).collect(); do_perft(&r) }) },
            "eval" => { let tk: Vec<String> = toks[1..].iter().map(|x| x.to_string()).collect(); catch(move || { let r: Vec<&str> = tk.iter().map(|x| x.as_str()).collect(); do_eval(&r) }) },
            _ => format!("BADREQ {}", toks[0]),
        };
        writeln!(out, "{}", ans).unwrap();
    }
    out.flush().unwrap();
}

pub fn run_if_requested() -> bool {
    let args: Vec<String> = std::env::args().collect();
    if args.len() < 3 || args[1] != "--verif" { return false; }
    match args[2].as_str() {
        "consts" => { do_consts(); true }
        "batch" => { do_batch(); true }
        "session" => {
            let text = std::fs::read_to_string(&args[3]).unwrap();
            let mut lines = Vec::new();
            for l in text.lines() {
                let mut sp = l.splitn(2, ' ');
                let d: u64 = sp.next().unwrap().parse().unwrap();
                lines.push((d, sp.next().unwrap_or("").to_string()));
            }
            // end of input: the reader thread sends "quit" (after the fix of the EOF spin) -- unless the script says @NOEOF
            if lines.last().map(|l| l.1.as_str()) == Some("@NOEOF") { lines.pop(); } else { lines.push((0, "quit".to_string())); }
            SCRIPT.with(|s| *s.borrow_mut() = Some(Script { lines, next: 0, polls_waited: 0, eof_reads: 0 }));
            let extra: u64 = std::env::var("JENCE_VERIF_EXTRA").ok().and_then(|x| x.parse().ok()).unwrap_or(0);
            HS.with(|h| h.borrow_mut().extra_every = extra);
            false   // fall through into the real main loop, which now reads the script
        }
        _ => { eprintln!("unknown verif mode"); true }
    }
}
