"""Shared chess-core streams (gen / legal / make / eval / key / perft) for C01, C02, C04, C14, C16.
One `pos` request per generated position is answered by the real engine (in-crate driver) and by the extracted model;
the extracted Coq monitors (Model/Abs.v: mon_legal_set, mon_capture_set, mon_make, spec_perft) judge the ENGINE's answer
against the rules-of-chess specification.  Results are cached per (engine binary, model binary, seed, tier) so the five
checks of one run do not repeat the work; every check still rebuilds the engine from /repo first."""
import os, json, hashlib, pickle, time
import vlib, posgen

def code_hash():
    h = hashlib.sha256()
    here = os.path.dirname(os.path.abspath(__file__))
    for f in [__file__, os.path.join(here, '..', 'tools', 'posgen.py'), os.path.join(here, '..', 'tools', 'vlib.py')]:
        h.update(open(f, 'rb').read())
    cdir = os.path.join(here, '..', 'corpus')
    for root, _, files in sorted(os.walk(cdir)):
        for f in sorted(files): h.update(open(os.path.join(root, f), 'rb').read())
    return h.hexdigest()[:12]

def file_hash(p):
    h = hashlib.sha256(); h.update(open(p, 'rb').read()); return h.hexdigest()[:16]

def popc(x): return bin(x).count('1')

def features(fields):
    t = fields.split()
    bbs = [int(x, 16) for x in t[:12]]
    return {'men_w': sum(popc(b) for b in bbs[:6]), 'men_b': sum(popc(b) for b in bbs[6:]), 'ep': t[16] != '64', 'rights': int(t[17]),
            'white': t[15] == '1', 'half': int(t[18])}

def generate(ctx, oracle):
    rng = ctx.rng
    seeds = posgen.seed_positions(oracle)
    pos = []   # (family, fields)
    for n, g in seeds:
        pos.append(('seed:' + n, g))
    nplay, plies = (16, 40) if ctx.tier == 'quick' else (600, 80)
    kinds = {}
    seedlist = [g for n, g in seeds if oracle.ask('wf ' + g) == '1']
    for i in range(nplay):
        start = seedlist[i % len(seedlist)] if i < 2 * len(seedlist) else rng.choice(seedlist)
        for g, k in posgen.playout(oracle, start, rng, plies, bias=rng.choice([1.0, 4.0, 8.0])):
            pos.append(('playout', g)); kinds[k] = kinds.get(k, 0) + 1
    # targeted family: every pawn square / colour with men on the capture squares; random placements (legal positions that need not be
    # reachable from the seeds); both filtered by the executable wf below like everything else
    for g in posgen.pawn_grid(rng):
        pos.append(('pawn-grid', oracle.ask('rekey ' + g)))
    for g in posgen.random_placements(rng, 500 if ctx.tier == 'quick' else 20000):
        g2 = oracle.ask('rekey ' + g)
        if oracle.ask('wf ' + g2) == '1': pos.append(('random-placement', g2))
    # colour mirrors of a sample (exercise the black code paths on the same geometry)
    sample = rng.sample(pos, min(len(pos), 150 if ctx.tier == 'quick' else 3000))
    for fam, g in sample:
        pos.append(('mirror', oracle.ask('rekey ' + posgen.mirror_fields(g))))
    # de-duplicate
    seen = set(); out = []
    for fam, g in pos:
        if g in seen: continue
        seen.add(g); out.append((fam, g))
    return out, kinds

def collect(ctx):
    """returns dict with positions, engine answers, model answers, judge verdicts, wf flags, stats"""
    key = f'{file_hash(ctx.engine)}-{file_hash(ctx.model) if ctx.model_ok else "nomodel"}-{ctx.seed}-{ctx.tier}-{code_hash()}'
    cdir = os.path.join(vlib.BUILD, 'cache'); os.makedirs(cdir, exist_ok=True)
    cfile = os.path.join(cdir, f'chesscore-{key}.pkl')
    with vlib.Lock('chesscore'):
        if os.path.exists(cfile):
            try: return pickle.load(open(cfile, 'rb'))
            except Exception: pass
        if not ctx.model_ok:
            return None
        oracle = posgen.Oracle(ctx.model)
        try:
            pos, kinds = generate(ctx, oracle)
            wf = [oracle.ask('wf ' + g) == '1' for fam, g in pos]
            inv3 = [oracle.ask('inv3 ' + g) for fam, g in pos]
            inv = [x[:1] == '1' for x in inv3]
        finally:
            oracle.close()
        lines = ['pos ' + g for fam, g in pos]
        t0 = time.time(); eng = ctx.engine_batch(lines, shards=8); t1 = time.time()
        mod = ctx.model_batch(lines); t2 = time.time()
        jl = ['judge ' + g + ' @ ' + e for (fam, g), e in zip(pos, eng)]
        jud = ctx.model_batch(jl); t3 = time.time()
        # eval metamorphic inputs: mirror and side flip of every position
        res = {'pos': pos, 'wf': wf, 'inv': inv, 'inv3': inv3, 'eng': eng, 'mod': mod, 'jud': jud, 'kinds': kinds,
               'times': {'engine_s': round(t1 - t0, 2), 'model_s': round(t2 - t1, 2), 'judge_s': round(t3 - t2, 2)}}
        # drop old cache files
        for f in os.listdir(cdir):
            if f.startswith('chesscore-') and f != os.path.basename(cfile):
                try: os.remove(os.path.join(cdir, f))
                except OSError: pass
        pickle.dump(res, open(cfile, 'wb'))
        return res

def sections(ans):
    d = {}
    for part in ans.split(' | '):
        t = part.split(' ', 1)
        d[t[0]] = t[1] if len(t) > 1 else ''
    # derived: the stored keys of the successors only
    d['MH'] = ' '.join(x.rsplit(',', 1)[-1] for x in d.get('M', '').split())
    # derived, order-free views (the properties speak about sets of moves and about successors per move, not about generation order):
    # every per-move answer paired with its move, sorted
    a, q = d.get('A', '').split(), d.get('Q', '').split()
    def paired(moves, vals, name):
        if len(moves) == len(vals): d[name] = ' '.join(sorted(m + '>' + v for m, v in zip(moves, vals)))
        else: d[name] = 'UNPAIRED ' + ' '.join(moves) + ' / ' + ' '.join(vals)
    paired(a, list(d.get('L', '').strip()), 'AL'); paired(q, list(d.get('LQ', '').strip()), 'QL')
    paired(a, d.get('M', '').split(), 'AM'); paired(a, d.get('MK', '').split(), 'AMK'); paired(a, d['MH'].split(), 'AMH')
    return d

def histograms(res):
    h = {'family': {}, 'men_per_side': {}, 'in_check': 0, 'ep_available': 0, 'rights': {}, 'side_white': 0, 'move_kinds_made': res['kinds'], 'wf': sum(res['wf']),
         'satisfy_the_theorems_hypothesis_legal_inv_b': sum(res.get('inv', [])),
         'satisfy_legal_inv_b_and_men16_b_and_prow2_b (hypotheses of C16)': sum(1 for x in res.get('inv3', []) if x == '111'),
         'wf_positions_outside_those_hypotheses': sum(1 for x, w in zip(res.get('inv3', []), res['wf']) if w and x != '111')}
    for (fam, g), e in zip(res['pos'], res['eng']):
        f = features(g)
        fam0 = fam.split(':')[0]
        h['family'][fam0] = h['family'].get(fam0, 0) + 1
        k = f'{f["men_w"]}/{f["men_b"]}'
        h['men_per_side'][k] = h['men_per_side'].get(k, 0) + 1
        h['ep_available'] += f['ep']; h['side_white'] += f['white']
        h['rights'][str(f['rights'])] = h['rights'].get(str(f['rights']), 0) + 1
        s = sections(e)
        if s.get('C', '').strip() == '1': h['in_check'] += 1
    # keep the men histogram small
    top = sorted(h['men_per_side'].items(), key=lambda kv: -kv[1])[:12]
    h['men_per_side'] = dict(top)
    return h

def run_property(ctx, props_file, tags, tie_sections, what, rule):
    """common driver: prove, collect, report violations whose judge tag starts with one of `tags`,
    report a broken tie when engine and model differ in one of `tie_sections` and no violation was found."""
    vlib.standard_prepare(ctx, props_file)
    if ctx.engine is None: return None
    res = collect(ctx)
    if res is None:
        return None
    pos, eng, mod, jud, wf = res['pos'], res['eng'], res['mod'], res['jud'], res['wf']
    ctx.cov['evaluations'] = len(pos)
    ctx.cov['rule'] = rule
    ctx.cov['input_distribution'] = histograms(res)
    ctx.cov['stream_times'] = res['times']
    nontriv = 0
    for (fam, g), e in zip(pos, eng):
        s = sections(e)
        if len(s.get('A', '').split()) >= 2: nontriv += 1
    ctx.cov['distinct_nontrivial'] = nontriv
    for (fam, g), e in list(zip(pos, eng))[::max(1, len(pos) // 3)][:3]:
        ctx.sample({'family': fam, 'fen': posgen.fields_to_fen(g), 'engine_answer_prefix': e[:300]})
    # the property itself on the engine's answers (only positions that are legal positions: wf)
    found = {}
    for (fam, g), e, v, ok in zip(pos, eng, jud, wf):
        if not ok or v == 'OK': continue
        for tag in v.split()[1:]:
            if any(tag.startswith(t) for t in tags):
                base = tag.split(':')[0] + ':' + tag.split(':')[1] if ':' in tag else tag
                found.setdefault(base, []).append((fam, g, e, tag))
    for base, items in found.items():
        items.sort(key=lambda it: sum(popc(int(x, 16)) for x in it[1].split()[:12]))   # fewest men first
        fam, g, e, tag = items[0]
        ctx.violation(f'{ctx.pid}:{base.split(":", 1)[1] if ":" in base else base}', what,
                      {'fen': posgen.fields_to_fen(g), 'game_fields': g, 'monitor_tag': tag, 'engine_answer': e[:4000],
                       'positions_failing_in_this_run': len(items), 'replay_request': 'pos ' + g})
    # tie 2
    dis = []
    for (fam, g), e, m in zip(pos, eng, mod):
        if e == m: continue
        se, sm = sections(e), sections(m)
        diff = [k for k in tie_sections if se.get(k) != sm.get(k)]
        if diff: dis.append((g, diff, se, sm))
    ctx.cov['model_vs_engine_disagreements'] = len(dis)
    ctx.cov['traces_validated_against_impl'] = len(pos) - len(dis)
    ctx.cov['monitor_rejections_on_wf_positions'] = sum(len(v) for v in found.values())
    if dis and not found:
        g, diff, se, sm = dis[0]
        k = diff[0]
        ctx.broken.append(vlib.Broken(f'correspondence stream pos: engine and model differ in section(s) {diff}',
                                      json.dumps({'fen': posgen.fields_to_fen(g), 'game_fields': g, 'section': k, 'engine': se.get(k, '')[:1500], 'model': sm.get(k, '')[:1500], 'positions_differing': len(dis)})))
    return res

def replay_pos(ctx, path, props_file):
    j = json.load(open(path))
    vlib.standard_prepare(ctx, props_file)
    g = j['replay']['game_fields']
    e = ctx.engine_batch(['pos ' + g], shards=1)[0]
    v = ctx.model_batch(['judge ' + g + ' @ ' + e], shards=1)[0]
    print('fen:', posgen.fields_to_fen(g)); print('engine:', e[:2000]); print('monitor:', v)
    return 0 if v == 'OK' else 1
