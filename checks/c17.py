"""C17 -- inspecting or searching a position never changes it or the game history.
proof: Props/C17.v; tie + search for a failing input: checks/searchcore.py (engine vs extracted model on full hook traces; extracted monitors on the engine's answers),
and, at the level of the UCI commands (go, perft, eval, d, isready, ...), sessions through the REAL main loop: the position displayed before and after the
command must be the same (all six FEN fields and the key), and a later search must print what it prints when the command is left out."""
import re, json
from checks import searchcore, c13
import vlib

POS = ['position startpos', 'position startpos moves e2e4 e7e5 g1f3', 'position fen r3k2r/p1ppqpb1/bn2pnp1/3PN3/1p2P3/2N2Q1p/PPPBBPPP/R3K2R w KQkq - 0 1',
       'position fen 8/2p5/3p4/KP5r/1R3p1k/8/4P1P1/8 w - - 0 10', 'position startpos moves g1f3 g8f6 f3g1 f6g8 g1f3 g8f6',
       'position fen rnbqkbnr/ppp1pppp/8/8/3pP3/8/PPPP1PPP/RNBQKBNR b KQkq e3 0 3']
INSPECT = ['perft 1', 'perft 2', 'perft 3', 'perft! 2', 'perft simple', 'perft', 'eval', 'd', 'isready', 'uci', 'stop', 'foo bar']
LATE = 20000

def displays(out):
    blocks = []; lines = out.split('\n'); i = 0
    while i < len(lines):
        if '┌' in lines[i]:
            j = i
            while j < len(lines) and 'Zobrist' not in lines[j]: j += 1
            blocks.append('\n'.join(l.rstrip() for l in lines[i:j + 1])); i = j + 1
        else: i += 1
    return blocks

def last_search(out):
    """the lines of the last search of the transcript (time masked)"""
    lines = out.split('\n'); idx = [i for i, l in enumerate(lines) if l.startswith('@READ go')]
    if not idx: return None
    res = []
    for l in lines[idx[-1] + 1:]:
        if l.startswith('@'): continue
        if l.startswith('info ') or l.startswith('bestmove'): res.append(re.sub(r' time \d+', ' time T', l))
        if l.startswith('bestmove'): break
    return res

def uci_level(ctx):
    ran = 0; seen = set(); tied = []
    for pos in POS:
        ref = ctx.engine_session([(0, pos), (0, 'd'), (0, 'd'), (0, 'go depth 3'), (LATE, 'quit')], extra=7, timeout=120)
        refs = last_search(ref)
        scripts = []
        for cmd in INSPECT:
            scripts.append((cmd, [(0, pos), (0, 'd'), (0, cmd), (0, 'd'), (0, 'go depth 3'), (LATE, 'quit')], True))
        for cmd, extra_lines in [('go depth 1', []), ('go depth 3', []), ('go infinite', [(3, 'stop')]), ('go movetime 0', [])]:
            scripts.append((cmd, [(0, pos), (0, 'd'), (0, cmd)] + extra_lines + [(LATE, 'd'), (0, 'quit')], False))
        for cmd, script, later in scripts:
            out = ctx.engine_session(script, extra=7, timeout=120); ran += 1
            if cmd.startswith('perft'): tied.append((script, out))
            ds = displays(out)
            prob = None
            if len(ds) < 2 or '@TIMEOUT' in out: prob = ('C17:uci-session-broke', 'the session did not display the position twice (panic, hang or missing output)')
            elif ds[0] != ds[-1]: prob = ('C17:uci-command-changed-position', f'the position displayed after `{cmd}` differs from the one displayed before it')
            elif later and last_search(out) != refs: prob = ('C17:uci-command-changed-later-search', f'after `{cmd}` the next search prints something else than without it (history or bookkeeping changed)')
            if prob and prob[0] not in seen:
                seen.add(prob[0])
                ctx.violation(prob[0], prob[1], {'script (delay_in_polls line)': [f'{d} {l}' for d, l in script], 'display_before': ds[0] if ds else None, 'display_after': ds[-1] if ds else None,
                                                 'search_after': last_search(out), 'search_without_the_command': refs if later else None, 'transcript_tail': out[-1500:]})
    # `move`: the one console command that is meant to change the game -- it must do what `position ... moves` does with the same moves
    MV = [('position startpos', 'e2e4 e7e5 g1f3'), ('position startpos moves d2d4', 'd7d5 c1f4'), ('position fen r3k2r/p1ppqpb1/bn2pnp1/3PN3/1p2P3/2N2Q1p/PPPBBPPP/R3K2R w KQkq - 0 1', 'e1g1 e8c8'),
          ('position fen 8/2p5/3p4/KP5r/1R3p1k/8/4P1P1/8 w - - 0 10', 'e2e4 h4g5'), ('position startpos moves g1f3 g8f6', 'f3g1 f6g8')]
    for pos, mv in MV:
        a = [(0, pos), (0, 'move ' + mv), (0, 'd'), (0, 'go depth 3'), (LATE, 'quit')]
        b = [(0, pos + (' ' if ' moves ' in pos else ' moves ') + mv), (0, 'd'), (0, 'go depth 3'), (LATE, 'quit')]
        oa = ctx.engine_session(a, extra=7, timeout=120); ob = ctx.engine_session(b, extra=7, timeout=120); ran += 2
        tied.append((a, oa))
        da, db = displays(oa), displays(ob)
        if (not da or not db or da[-1] != db[-1] or last_search(oa) != last_search(ob)) and 'C17:move-command' not in seen:
            seen.add('C17:move-command')
            ctx.violation('C17:move-command', '`move` does not leave the position and history that `position ... moves` leaves with the same moves',
                          {'script (delay_in_polls line)': [f'{d} {l}' for d, l in a], 'display_after_move': da[-1] if da else None, 'display_after_position_moves': db[-1] if db else None,
                           'search_after_move': last_search(oa), 'search_after_position_moves': last_search(ob)})
    # tie: the same sessions through the extracted main-loop model (perft and move are modelled commands)
    if ctx.model_ok and tied:
        mod = ctx.model_batch(['session 7 ## ' + ' ## '.join(f'{d}|{l}' for d, l in s) for s, o in tied])
        dis = []
        for (s, o), m in zip(tied, mod):
            el, ml = c13.transcripts(o, m)
            if el != ml: dis.append((s, el, ml))
        ctx.cov['uci_level_sessions_compared_with_the_model'] = len(tied); ctx.cov['uci_level_model_vs_engine_disagreements'] = len(dis)
        if dis and not ctx.violations:
            s, el, ml = dis[0]
            idx = next((i for i, (x, y) in enumerate(zip(el, ml)) if x != y), min(len(el), len(ml)))
            ctx.broken.append(vlib.Broken('correspondence UCI sessions (perft / move through the real main loop): engine and model transcripts differ',
                json.dumps({'script': [f'{d} {l}' for d, l in s], 'first_difference_at_line': idx, 'engine': el[max(0, idx - 1):idx + 2], 'model': ml[max(0, idx - 1):idx + 2], 'sessions_differing': len(dis)})))
    ctx.cov['uci_level_sessions_through_the_real_main_loop'] = ran
    ctx.cov['evaluations'] = ctx.cov.get('evaluations', 0) + ran

def run(ctx):
    searchcore.run_property(ctx, 'Props/C17.v', ['C17:'],
        'a search changed the position or the recorded history, or left ply / repetition index displaced')
    if ctx.engine is not None:
        uci_level(ctx)
def replay(ctx, path):
    j = json.load(open(path))
    sc = j.get('replay', {}).get('script (delay_in_polls line)')
    if sc:
        ctx.build_engine(); s = []
        for x in sc:
            d, l = x.split(' ', 1); s.append((int(d), l))
        print(ctx.engine_session(s, extra=7)); return 0
    return searchcore.replay_search(ctx, path, 'Props/C17.v')
