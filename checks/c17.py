"""C17 -- inspecting or searching a position never changes it or the game history.
proof: Props/C17.v; tie + search for a failing input: checks/searchcore.py (engine vs extracted model on full hook traces; extracted monitors on the engine's answers)."""
from checks import searchcore
def run(ctx):
    searchcore.run_property(ctx, 'Props/C17.v', ['C17:'],
        'a search changed the position or the recorded history, or left ply / repetition index displaced')
def replay(ctx, path): return searchcore.replay_search(ctx, path, 'Props/C17.v')
