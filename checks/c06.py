"""C06 -- search examines only legal, consistent positions; terminal verdicts are right."""
from checks import searchcore
def run(ctx):
    searchcore.run_property(ctx, 'Props/C06.v', ['C06:', 'trace-unparsable'],
        'a position examined by the search is not a legal position reached by a legal move / pass, has a wrong key, or a mate/stalemate verdict is wrong')
def replay(ctx, path): return searchcore.replay_search(ctx, path, 'Props/C06.v')
