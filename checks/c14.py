"""C14 -- perft counts are exact and independent of the thread count.  proof: schedule independence (any order/bracketing), depth-1 paths agree.
decided per run: engine perft 1-2 vs extracted Spec.perft on every generated position; deeper perft on seeds under RAYON_NUM_THREADS in {1,2,16}
(thorough: 1..16) must agree with each other, with the model, and (depth 3) with Spec.perft."""
import json
from checks import chesscore
from checks.c01 import RULE
import vlib, posgen

def run(ctx):
    res = chesscore.run_property(ctx, 'Props/C14.v', ['C14:'], ['P'],
        'a perft count reported by the engine differs from the number of legal move sequences', RULE)
    if res is None or ctx.engine is None: return
    wfpos = [g for (fam, g), ok in zip(res['pos'], res['wf']) if ok]
    seeds = [g for (fam, g), ok in zip(res['pos'], res['wf']) if ok and fam.startswith('seed:')]
    depth = 3 if ctx.tier == 'quick' else 4
    sel = seeds[:24] if ctx.tier == 'quick' else seeds + wfpos[len(seeds):len(seeds) + 200]
    lines = [f'perft {depth} {g}' for g in sel]
    threads = [1, 2, 16] if ctx.tier == 'quick' else list(range(1, 17))
    by_t = {}
    for t in threads:
        by_t[t] = ctx.engine_batch(lines, shards=2 if t > 4 else 8, env={'RAYON_NUM_THREADS': str(t)})
    ctx.cov['thread_counts'] = threads; ctx.cov['deep_perft_depth'] = depth; ctx.cov['deep_perft_positions'] = len(sel)
    ctx.cov['evaluations'] += len(lines) * len(threads)
    spec = ctx.model_batch([f'specperft {min(depth, 3)} {g}' for g in sel]) if ctx.model_ok else None
    mod = ctx.model_batch(lines) if (ctx.model_ok and depth <= 3) else None
    for i, g in enumerate(sel):
        vals = {t: by_t[t][i] for t in threads}
        if len(set(vals.values())) != 1:
            ctx.violation('C14:thread-dependent', 'perft count depends on the number of worker threads',
                          {'fen': posgen.fields_to_fen(g), 'game_fields': g, 'depth': depth, 'counts_by_threads': vals}); break
    if spec and depth <= 3:
        for i, g in enumerate(sel):
            if by_t[threads[0]][i] != spec[i]:
                ctx.violation('C14:perft-deep', f'perft {depth} differs from the rules-of-chess count',
                              {'fen': posgen.fields_to_fen(g), 'game_fields': g, 'depth': depth, 'engine': by_t[threads[0]][i], 'specification': spec[i]}); break
    # sparse positions (bare kings, blocked pawns, a single extra man): nodes with very few moves several plies above the leaves,
    # where a parallel split / serial fallback threshold would show; deeper perft is cheap there
    rng = ctx.rng
    raw = []
    for _ in range(40 if ctx.tier == 'quick' else 1500):
        board = {}
        ks = rng.sample([0, 7, 56, 63, 1, 8, 62, 55] + [rng.randrange(64) for _ in range(4)], 2)
        board[ks[0]] = 'K'; board[ks[1]] = 'k'
        for _ in range(rng.choice([0, 0, 1, 1, 2, 3])):
            sq = rng.randrange(16, 48)
            if rng.random() < 0.6:
                if sq not in board and sq - 8 not in board: board[sq] = 'P'; board[sq - 8] = 'p'      # blocked pair
            elif sq not in board:
                board[sq] = rng.choice('PpNnBbRrQq')
        raw.append(posgen.fields_from_board(board, rng.randrange(2), 0, 64, rng.randrange(0, 50), rng.randrange(1, 60)))
    if ctx.model_ok:
        rk = ctx.model_batch(['rekey ' + g for g in raw]); wfl = ctx.model_batch(['wf ' + g for g in rk])
        sparse = sorted(set(g for g, ok in zip(rk, wfl) if ok == '1'))
        sparse += [g for g in wfpos if bin(int(g.split()[14], 16)).count('1') <= 4][:20 if ctx.tier == 'quick' else 400]
        sd = [4] if ctx.tier == 'quick' else [4, 5]
        slines = [f'perft {d} {g}' for g in sparse for d in sd]
        sthreads = [1, 4, 16] if ctx.tier == 'quick' else list(range(1, 17))
        sby = {t: ctx.engine_batch(slines, shards=2 if t > 4 else 8, env={'RAYON_NUM_THREADS': str(t)}) for t in sthreads}
        smod = ctx.model_batch(slines)
        ctx.cov['sparse_positions'] = len(sparse); ctx.cov['sparse_depths'] = sd; ctx.cov['sparse_thread_counts'] = sthreads
        ctx.cov['evaluations'] += len(slines) * len(sthreads)
        for i, l in enumerate(slines):
            vals = {t: sby[t][i] for t in sthreads}
            if len(set(vals.values())) != 1 or vals[sthreads[0]] != smod[i]:
                t = l.split(); g = ' '.join(t[2:])
                ctx.violation('C14:thread-dependent' if len(set(vals.values())) != 1 else 'C14:perft-deep',
                              'perft count depends on the number of worker threads' if len(set(vals.values())) != 1 else 'perft differs from the model of the sequential count (itself tied to the rules at depth <= 3)',
                              {'fen': posgen.fields_to_fen(g), 'game_fields': g, 'depth': int(t[1]), 'counts_by_threads': vals, 'model': smod[i]}); break
    ctx.sample({'request': lines[0][:200], 'engine_by_threads': {t: by_t[t][0] for t in threads}, 'spec': spec[0] if spec else None})
def replay(ctx, path):
    return chesscore.replay_pos(ctx, path, 'Props/C14.v')
