"""C02 -- making a legal move yields the rules' successor.  proof (all positions/moves): scalar fields (side, clocks incl. wrap, rights mask, ep).
decided per run: mon_make (abs successor = Spec.apply, occupancy = unions, disjoint, one king each) on every successor the engine produces."""
from checks import chesscore
from checks.c01 import RULE
def run(ctx):
    chesscore.run_property(ctx, 'Props/C02.v', ['C02:'], ['AM'],
        'a successor position produced by the engine differs from the rules-defined successor or has inconsistent redundant sets', RULE)
def replay(ctx, path):
    return chesscore.replay_pos(ctx, path, 'Props/C02.v')
