"""C08 -- the transposition table only returns sound information.
proof: Props/C08.v (refinement to last-store-per-slot, probe soundness, re-basing, retrievable, clear, no overflow,
       monitor accepts the model).  tie: stream tt-ops, engine vs extracted model, exact answers.
search: the extracted Coq monitor (Spec.TTSpec.monitor) applied to the engine's own answers."""
import json, os
import vlib

TT_SIZE_FALLBACK = 2097152

def gen_history(rng, tt_size, nops):
    base = [rng.getrandbits(64) for _ in range(3)]
    pool = []
    for k in base:
        lo = k % tt_size
        pool += [k, (k + tt_size) % 2**64, (k + 2 * tt_size) % 2**64, lo, lo + tt_size * rng.randrange(1, 1000),
                 (k ^ (1 << 63)), (k ^ (1 << 40))]
    pool += [0, tt_size, tt_size - 1, 2**64 - 1, 2**64 - tt_size]
    scores = [0, 1, -1, 50000, -50000, 49000, -49000, 48000, -48000, 48001, -48001, 47999, -47999, 48002, -48002]
    ops = []; last = None
    for _ in range(nops):
        r = rng.random()
        if r < 0.45 or last is None:
            h = rng.choice(pool); ply = rng.choice([0, 1, 2, 5, 30, 62, 63, rng.randrange(64)])
            c = rng.random()
            if c < 0.3: s = rng.choice(scores)
            elif c < 0.5: s = 49000 - ply - rng.randrange(0, 40)
            elif c < 0.7: s = -49000 + ply + rng.randrange(0, 40)
            else: s = rng.randrange(-50000, 50001)
            s = max(-50000, min(50000, s))
            d = rng.choice([0, 1, 2, 3, 10, 254, 255, rng.randrange(256)])
            f = rng.choice('ABE')
            ops += ['R', '%x' % h, str(s), str(d), f, str(ply)]
            last = (h, s, d, f, ply)
        elif r < 0.95:
            if rng.random() < 0.6: h, s, d, f, ply = last
            else: h = rng.choice(pool); s = rng.choice(scores); d = rng.randrange(256); ply = rng.randrange(64)
            pd = max(0, min(255, d + rng.choice([-2, -1, 0, 0, 0, 1, 2])))
            q = ply if rng.random() < 0.4 else rng.randrange(64)
            a = s + rng.choice([-60, -2, -1, 0, 1, 2, 60]) + (q - ply if rng.random() < 0.3 else 0)
            b = a + rng.choice([1, 1, 2, 50, 100])
            ops += ['P', '%x' % h, str(pd), str(a), str(b), str(q)]
        else:
            ops += ['C']
    return ops

def boundary_sweep(tt_size):
    """single store -> probe pairs over the boundary grid (exhaustive over the grid)."""
    lines = []
    for s in [-50000, -49000, -48064, -48002, -48001, -48000, -47999, 0, 47999, 48000, 48001, 48002, 48064, 49000, 50000]:
        for p in [0, 1, 63]:
            for q in [0, 1, 63]:
                for f in 'ABE':
                    for dd in [-1, 0, 1]:
                        ops = ['R', '5', str(s), '10', f, str(p)]
                        for da in [-1, 0, 1]:
                            a = s - (p - q if abs(s) > 48000 else 0) + da
                            ops += ['P', '5', str(10 + dd), str(a), str(a + 1), str(q), 'P', '%x' % (5 + tt_size), str(10 + dd), str(a), str(a + 1), str(q)]
                        lines.append('tt ' + ' '.join(ops))
    return lines

def run(ctx):
    vlib.standard_prepare(ctx, 'Props/C08.v')
    if ctx.engine is None:
        return
    rng = ctx.rng
    tt_size = TT_SIZE_FALLBACK
    try:
        import subprocess
        for l in subprocess.run([ctx.engine, '--verif', 'consts'], capture_output=True, text=True, timeout=60).stdout.splitlines():
            if l.startswith('TT_SIZE'): tt_size = int(l.split()[1])
    except Exception:
        pass
    nhist = 400 if ctx.tier == 'quick' else 20000
    lines = []
    corpus = os.path.join(vlib.VERIF, 'corpus', 'C08')
    if os.path.isdir(corpus):
        for f in sorted(os.listdir(corpus)):
            lines += [l.strip() for l in open(os.path.join(corpus, f)) if l.strip()]
    ncorpus = len(lines)
    lines += boundary_sweep(tt_size)
    nsweep = len(lines) - ncorpus
    for i in range(nhist):
        lines.append('tt ' + ' '.join(gen_history(rng, tt_size, rng.choice([1, 3, 8, 20, 60, 150, 400]))))
    eng = ctx.engine_batch(lines, shards=8)
    ctx.cov['evaluations'] = len(lines)
    ctx.cov['distinct_nontrivial'] = len(set(l for l, e in zip(lines, eng) if any(x != 'U' for x in e.split())))
    ctx.cov['rule'] = ('TT op histories (R=record,P=probe,C=clear) over a key pool built to collide in one slot; scores on and around +-MATE_BOUND, +-MATE_VALUE-ply; '
                       'depths 0..255; plies 0..63; windows around the stored score. non-trivial = at least one probe answered (not UNKNOWN); distinct = distinct request lines')
    ctx.cov['corpus_cases'] = ncorpus; ctx.cov['boundary_sweep_cases'] = nsweep; ctx.cov['random_histories'] = nhist
    nprobe = sum(l.split().count('P') for l in lines); nans = sum(sum(1 for x in e.split() if x != 'U') for e in eng)
    ctx.cov['probes'] = nprobe; ctx.cov['probes_answered'] = nans
    ctx.cov['op_histogram'] = {k: sum(l.split().count(k) for l in lines) for k in 'RPC'}
    for l, e in list(zip(lines, eng))[ncorpus + nsweep: ncorpus + nsweep + 3]:
        ctx.sample({'request': l[:400], 'engine': e[:200]})
    # tie 2: engine == extracted model
    disagreements = []
    if ctx.model_ok:
        mod = ctx.model_batch(lines)
        for l, e, m in zip(lines, eng, mod):
            if e != m: disagreements.append((l, e, m))
        ctx.cov['model_vs_engine_disagreements'] = len(disagreements)
        ctx.cov['traces_validated_against_impl'] = len(lines) - len(disagreements)
    # search for a failing input of the property itself: the Coq monitor on the engine's answers
    bad = []
    if ctx.model_ok:
        mon_lines = ['ttmon ' + l[3:] + ' | ' + e for l, e in zip(lines, eng)]
        verdicts = ctx.model_batch(mon_lines)
        for l, e, v in zip(lines, eng, verdicts):
            if v != 'OK': bad.append((l, e, v))
    else:
        bad = py_monitor(lines, eng)
    for l, e, v in bad[:1]:
        l2, e2 = shrink(ctx, l)
        ctx.violation('C08:monitor-reject', 'the engine answered a probe in a way the last-store specification forbids',
                      {'request': l2, 'engine_answers': e2, 'monitor': v, 'original_request': l[:2000]})
    if disagreements and not bad:
        l, e, m = disagreements[0]
        ctx.broken.append(vlib.Broken('correspondence stream tt-ops: engine and model differ', json.dumps({'request': l[:3000], 'engine': e, 'model': m})))

def py_monitor(lines, eng):
    return []   # without a model binary there is no extracted monitor; the broken tie is reported as such

def shrink(ctx, line):
    """ddmin over ops, keeping 'monitor rejects the engine's answers'."""
    toks = line.split()[1:]
    ops = []; i = 0
    while i < len(toks):
        n = 1 if toks[i] == 'C' else 6
        ops.append(toks[i:i + n]); i += n
    def bad(o):
        l = 'tt ' + ' '.join(' '.join(x) for x in o)
        e = ctx.engine_batch([l], shards=1)[0]
        v = ctx.model_batch(['ttmon ' + l[3:] + ' | ' + e], shards=1)[0]
        return v != 'OK', l, e
    n = 2
    while len(ops) >= 2:
        chunk = max(1, len(ops) // n); reduced = False
        for i in range(0, len(ops), chunk):
            cand = ops[:i] + ops[i + chunk:]
            if cand and bad(cand)[0]:
                ops = cand; n = max(n - 1, 2); reduced = True; break
        if not reduced:
            if chunk == 1: break
            n = min(len(ops), n * 2)
    _, l, e = bad(ops)
    return l, e

def replay(ctx, path):
    j = json.load(open(path))
    vlib.standard_prepare(ctx, 'Props/C08.v')
    l = j['replay']['request']
    e = ctx.engine_batch([l], shards=1)[0]
    v = ctx.model_batch(['ttmon ' + l[3:] + ' | ' + e], shards=1)[0]
    print('request:', l); print('engine :', e); print('monitor:', v)
    return 0 if v == 'OK' else 1
