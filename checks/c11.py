"""C11 -- mate announcements are truthful in sign and distance.
proof: Props/C11.v (score -> mate field conversion, sign, TT re-basing of mate distances).
decided per run: an exhaustive forced-mate solver extracted from the rules-of-chess specification (mate / mated in <= 2 moves) judges every
`score mate N` the real engine prints (sign, distance, PV length when the PV ends in mate) and the mate-in-one clause at depth >= 3."""
import json, re
from checks import chesscore, searchcore
import vlib, posgen

def run(ctx):
    vlib.standard_prepare(ctx, 'Props/C11.v')
    if ctx.engine is None or not ctx.model_ok: return
    res = chesscore.collect(ctx)
    sres = searchcore.collect(ctx)
    rng = ctx.rng
    wfpos = [g for (fam, g), ok in zip(res['pos'], res['wf']) if ok]
    # positions with a mate in one (solver), from everything generated + their colour mirrors
    m1 = ctx.model_batch(['matesin 1 ' + g for g in wfpos])
    mate1 = [g for g, v in zip(wfpos, m1) if v == '1']
    oracle = posgen.Oracle(ctx.model)
    try:
        seeds = {n: g for n, g in posgen.seed_positions(oracle)}
        extra = [seeds[n] for n in ('mate_in_1', 'mated_in_1', 'smother', 'promo_mate', 'kq_mate1', 'kr_mate1', 'kr_mate2', 'kq_mated2', 'backrank_b', 'kq_k', 'kr_k', 'mate_in_2') if n in seeds]
        mirrors = [oracle.ask('rekey ' + posgen.mirror_fields(g)) for g in (mate1 + extra)]
    finally:
        oracle.close()
    pos = list(dict.fromkeys(mate1 + extra + mirrors))
    if ctx.tier == 'quick' and len(pos) > 60: pos = extra + mirrors[-len(extra):] + rng.sample(mate1, min(len(mate1), 30))
    scen = []
    for g in pos:
        for d in (3, 4):
            scen.append((g, d))
    lines = [searchcore.seq_line([searchcore.mk_search(d, -1, 0, 0, 0, [], g)]) for g, d in scen]
    eng = ctx.engine_batch(lines, shards=8)
    mod = ctx.model_batch(lines)
    jl = [f'judgemate {g} @ {e}' for (g, d), e in zip(scen, eng)]
    # every mate announcement seen in the shared search scenarios as well
    extra_j = []
    if sres:
        for (k, n, ss), e in zip(sres['sc'], sres['eng']):
            parts = e.split(' ## ')
            for s, a in zip(ss, parts):
                if 'score mate' in a and s['stop'] == -1 and not s['hist']:
                    extra_j.append((s['g'], a))
    jl += [f'judgemate {g} @ {a}' for g, a in extra_j]
    # long mates: bare-king endings (K+Q v K, K+R v K, random placements, both colours) searched deep enough (depth 10-12, engine only) for forced mates of
    # three to six moves to be announced with the table warm inside the search; announcements of up to three moves are decided by the solver
    # (affordable with four men on the board), longer ones by PV consistency only
    oracle = posgen.Oracle(ctx.model)
    sparse = []
    try:
        want = 14 if ctx.tier == 'quick' else 120
        tries = 0
        while len(sparse) < want and tries < 5000:
            tries += 1
            sq = rng.sample(range(64), 3)
            strong = rng.choice('QR'); white_strong = rng.random() < 0.5
            cells = ['1'] * 64
            cells[sq[0]] = 'K'; cells[sq[1]] = 'k'; cells[sq[2]] = strong if white_strong else strong.lower()
            rows = []
            for r in range(8):
                row = ''.join(cells[r * 8:(r + 1) * 8]); row = re.sub(r'1+', lambda m: str(len(m.group(0))), row); rows.append(row)
            fen = '/'.join(rows) + (' w' if white_strong else ' b') + ' - - 0 1'
            gg = oracle.ask('rekey ' + posgen.fen_to_fields(fen))
            if oracle.ask('wf ' + gg) == '1' and oracle.ask('succ ' + gg).strip(): sparse.append(gg)
    finally:
        oracle.close()
    lscen = [(g, d) for g in sparse for d in ((11,) if ctx.tier == 'quick' else (10, 12))]
    leng = ctx.engine_batch([searchcore.seq_line([searchcore.mk_search(d, -1, 0, 0, 0, [], g)]) for g, d in lscen], shards=8)
    ljl = [f'judgemate L3 {g} @ {e}' for (g, d), e in zip(lscen, leng)]
    jud = ctx.model_batch(jl + ljl)
    ctx.cov['long_mate_searches_on_bare_king_endings'] = len(lscen)
    ctx.cov['long_mate_searches_announcing_a_mate_of_at_most_3'] = sum(1 for e in leng if re.search(r'score mate -?[123] ', e))
    allcases = [(g, d, e) for (g, d), e in zip(scen, eng)] + [(g, None, a) for g, a in extra_j] + [(g, d, e) for (g, d), e in zip(lscen, leng)]
    nmate = sum(1 for g, d, e in allcases if 'score mate' in e)
    ctx.cov['evaluations'] = len(allcases)
    ctx.cov['distinct_nontrivial'] = len(set((g, d) for g, d, e in allcases if 'score mate' in e))
    ctx.cov['positions_with_mate_in_one'] = len(mate1)
    ctx.cov['searches_announcing_a_mate'] = nmate
    ctx.cov['unchecked_distance_gt_2'] = sum(1 for v in jud if 'unchecked-distance' in v)
    ctx.cov['rule'] = ('positions with a forced mate (solver-labelled mate-in-one positions from all generated legal positions, composed mates / mated positions, colour mirrors) searched at depth 3 and 4, '
                       'plus every search of the shared scenarios that announced a mate; non-trivial = the engine printed a mate score; distinct = distinct (position, depth)')
    for (g, d, e), v in list(zip(allcases, jud))[:3]:
        ctx.sample({'fen': posgen.fields_to_fen(g), 'depth': d, 'engine': e.split(' || ')[0][:250], 'solver_verdict': v})
    seen = set()
    for (g, d, e), v in zip(allcases, jud):
        if v.startswith('OK'): continue
        for tag in v.split()[1:]:
            base = re.sub(r'[\(\+\-]?\d.*$', '', tag)
            if base in seen: continue
            seen.add(base)
            ctx.violation('C11:' + base.split(':', 1)[-1], 'a mate announcement is not truthful (forced-mate solver disagrees) or a mate in one was not announced / played',
                          {'fen': posgen.fields_to_fen(g), 'game_fields': g, 'depth': d, 'solver_tag': tag, 'engine_answer': e.split(' || ')[0][:2000]})
    dis = [(l, a, b) for l, a, b in zip(lines, eng, mod) if a != b]
    ctx.cov['model_vs_engine_disagreements'] = len(dis)
    ctx.cov['traces_validated_against_impl'] = len(lines) - len(dis)
    if dis and not seen:
        l, a, b = dis[0]
        ctx.broken.append(vlib.Broken('correspondence stream search (mate positions): engine and model differ', json.dumps({'request': l[:1500], 'engine': a[:800], 'model': b[:800], 'count': len(dis)})))

def replay(ctx, path):
    j = json.load(open(path)); vlib.standard_prepare(ctx, 'Props/C11.v')
    g = j['replay']['game_fields']; d = j['replay'].get('depth') or 4
    e = ctx.engine_batch([searchcore.seq_line([searchcore.mk_search(d, -1, 0, 0, 0, [], g)])], shards=1)[0]
    v = ctx.model_batch([f'judgemate {"L3 " if d >= 10 else ""}{g} @ {e}'], shards=1)[0]
    print('engine:', e.split(' || ')[0]); print('solver:', v)
    return 0 if v.startswith('OK') else 1
