"""C03 -- every search request is answered with a legal best move.
proof: Props/C03.v; tie + search for a failing input: checks/searchcore.py (engine vs extracted model on full hook traces; extracted monitors on the engine's answers)."""
from checks import searchcore
def run(ctx):
    searchcore.run_property(ctx, 'Props/C03.v', ['C03:'],
        'the search did not answer with exactly one legal bestmove in UCI notation')
def replay(ctx, path): return searchcore.replay_search(ctx, path, 'Props/C03.v')
