"""C09 -- an interrupted search stops promptly and uses nothing computed afterwards.
proof: Props/C09.v; tie + search for a failing input: checks/searchcore.py (engine vs extracted model on full hook traces; extracted monitors on the engine's answers)."""
from checks import searchcore
def run(ctx):
    searchcore.run_property(ctx, 'Props/C09.v', ['C09:'],
        'after the stop was observed the search still wrote to the PV or the transposition table, or the node counter ran past the polling cadence')
def replay(ctx, path): return searchcore.replay_search(ctx, path, 'Props/C09.v')
