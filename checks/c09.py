"""C09 -- an interrupted search stops promptly and uses nothing computed afterwards.
proof: Props/C09.v; tie + search for a failing input: checks/searchcore.py (engine vs extracted model on full hook traces; extracted monitors on the engine's answers),
and, for the expired-deadline half of the property, sessions through the REAL main loop whose deadline has already passed when the search starts
(`go movetime 0` and the clock states whose budget is 0 ms): the first poll must see it and the search must end without completing an iteration."""
import json
from checks import searchcore, c10
def run(ctx):
    searchcore.run_property(ctx, 'Props/C09.v', ['C09:'],
        'after the stop was observed the search still wrote to the PV or the transposition table, or the node counter ran past the polling cadence')
    if ctx.engine is not None:
        c10.budget_zero_sessions(ctx, 'C09:expired-deadline-not-seen', 'the deadline had already passed when the search started, yet no poll acted on it: the search went on and printed completed iterations')
def replay(ctx, path):
    j = json.load(open(path)); sc = j.get('replay', {}).get('script (delay_in_polls line)')
    if sc:
        ctx.build_engine(); s = []
        for x in sc:
            d, l = x.split(' ', 1); s.append((int(d), l))
        print(ctx.engine_session(s, extra=7)); return 0
    return searchcore.replay_search(ctx, path, 'Props/C09.v')
