"""C12 -- every info line is well-formed and its PV is a legal line.
proof: Props/C12.v; tie + search for a failing input: checks/searchcore.py (engine vs extracted model on full hook traces; extracted monitors on the engine's answers)."""
from checks import searchcore
def run(ctx):
    searchcore.run_property(ctx, 'Props/C12.v', ['C12:'],
        'an info line is malformed, not monotone, or its PV is not a legal line from the searched position')
def replay(ctx, path): return searchcore.replay_search(ctx, path, 'Props/C12.v')
