"""C01 -- legal move generation is exact.  proof (for all positions): the two legality paths agree, ep => capture flag.
decided per run for the full statement: extracted monitors mon_legal_set / mon_capture_set on the engine's answers."""
from checks import chesscore
RULE = ('positions: seed families (perft suite, en-passant pins / discovered checks, castling under attack on every relevant square, promotions, '
        'double check, mates, stalemate, 218-move position, clocks near 100) + random legal playouts (move-kind bias) + colour mirrors; '
        'one `pos` request each (both generators, both legality paths). non-trivial = at least 2 pseudo-legal moves; distinct = distinct positions')
def run(ctx):
    chesscore.run_property(ctx, 'Props/C01.v', ['C01:'], ['AL', 'QL', 'C'],
        'the set of moves the engine treats as legal differs from the rules of chess (or the two legality paths differ)', RULE)
def replay(ctx, path):
    return chesscore.replay_pos(ctx, path, 'Props/C01.v')
