"""C07 -- repetition draws are recognised exactly with respect to the game history.
proof: Props/C07.v; tie + search for a failing input: checks/searchcore.py (engine vs extracted model on full hook traces; extracted monitors on the engine's answers)."""
from checks import searchcore
def run(ctx):
    searchcore.run_property(ctx, 'Props/C07.v', ['C07:'],
        'a node whose position occurred earlier in the game was not scored as a draw before anything else, or a repetition was declared on a position that occurred neither in the game nor on the line')
def replay(ctx, path): return searchcore.replay_search(ctx, path, 'Props/C07.v')
