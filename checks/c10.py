"""C10 -- the engine's self-imposed time budget always fits the clock.
proof: Props/C10.v (budget_fits, movetime exact, unbounded only without clock, through the argument loop, no i64 overflow).
tie: stream budget -- the real parse_go (search-entry intercept) vs the extracted Model.Go.parse_go on a dense grid.
search: the inequality of the property itself on the engine's answers."""
import json, os
import vlib

INCS = [0, 1, 99, 100, 101, 499, 500, 501, 1000, 5000]
MTGS = [None, 1, 2, 29, 30, 31, 100]

def mk(side, wt, bt, wi, bi, mtg, movetime, depth, order):
    parts = []
    if wt is not None: parts.append(('wtime', wt))
    if bt is not None: parts.append(('btime', bt))
    if wi is not None: parts.append(('winc', wi))
    if bi is not None: parts.append(('binc', bi))
    if mtg is not None: parts.append(('movestogo', mtg))
    if movetime is not None: parts.append(('movetime', movetime))
    if depth is not None: parts.append(('depth', depth))
    if order: order.shuffle(parts)
    return {'side': side, 'wt': wt, 'bt': bt, 'wi': wi, 'bi': bi, 'mtg': mtg, 'movetime': movetime, 'depth': depth,
            'line': 'go %d ' % side + ' '.join('%s %d' % kv for kv in parts)}

def oracle(c, ans):
    """the property itself: returns None if fine, else a description"""
    if ans in ('PANIC', 'NOSEARCH') or ans.startswith('<'):
        return 'no search started: ' + ans
    d, mt = [int(x) for x in ans.split()]
    mytime = c['wt'] if c['side'] == 1 else c['bt']
    if c['movetime'] is not None:
        return None if mt == c['movetime'] else f'movetime {c["movetime"]} but budget {mt}'
    if mytime is not None:
        if mt < 0: return f'budget {mt} is negative / the no-limit sentinel with {mytime} ms on the clock'
        if mt >= mytime: return f'budget {mt} >= remaining time {mytime}'
        return None
    return None if mt == -1 else f'no clock, no movetime, yet budget {mt}'

def region(c, ans):
    try:
        mt = int(ans.split()[1])
    except Exception:
        return 'nosearch'
    mytime = c['wt'] if c['side'] == 1 else c['bt']
    if c['movetime'] is not None: return 'movetime'
    if mytime is None: return 'noclock'
    if mt == -1: return 'sentinel'
    if mt < 0: return 'negative'
    return 'exceeds'

def cases(ctx):
    rng = ctx.rng
    cs = []
    tmax = 3200
    tstep = 1 if ctx.tier == 'thorough' else 1
    for side in (1, 0):
        for t in range(1, tmax + 1, tstep):
            for inc in INCS:
                for mtg in MTGS:
                    if ctx.tier == 'quick' and not (t <= 40 or 1990 <= t <= 2010 or 2900 <= t <= 3100 or t % 7 == 0) : continue
                    other = rng.choice([1, 5, 100000])
                    oinc = rng.choice([0, 3, 70000])
                    if side == 1: cs.append(mk(side, t, other, inc, oinc, mtg, None, None, None))
                    else: cs.append(mk(side, other, t, oinc, inc, mtg, None, None, None))
    # powers of ten, random large values, movetime, depth, orders
    big = [10**k for k in range(0, 11)] + [10**k - 1 for k in range(1, 11)] + [86400000, 7 * 86400000, 2**40]
    for side in (1, 0):
        for t in big:
            for inc in [0, 1, 500, 10**6, 10**9]:
                for mtg in [None, 1, 40, 10**6]:
                    cs.append(mk(side, t if side else 3, 3 if side else t, inc if side else 9, 9 if side else inc, mtg, None, None, rng))
    nrand = 20000 if ctx.tier == 'quick' else 400000
    for _ in range(nrand):
        side = rng.randrange(2)
        e = rng.choice([1, 2, 3, 4, 5, 7, 9, 12])
        t = rng.randrange(1, 10**e + 1)
        inc = rng.choice([0, 0, rng.randrange(0, 10**rng.choice([1, 3, 4, 6]))])
        mtg = rng.choice([None, None, rng.randrange(1, 200)])
        movetime = rng.choice([None] * 6 + [rng.randrange(0, 10**6)])
        depth = rng.choice([None] * 5 + [rng.randrange(1, 100)])
        wt, bt = (t, rng.randrange(1, 10**6)) if side else (rng.randrange(1, 10**6), t)
        wi, bi = (inc, rng.randrange(0, 5000)) if side else (rng.randrange(0, 5000), inc)
        if rng.random() < 0.1: wt = bt = wi = bi = None
        cs.append(mk(side, wt, bt, wi, bi, mtg, movetime, depth, rng))
    return cs

def run(ctx):
    vlib.standard_prepare(ctx, 'Props/C10.v')
    if ctx.engine is None: return
    cs = []
    corpus = os.path.join(vlib.VERIF, 'corpus', 'C10')
    if os.path.isdir(corpus):
        for f in sorted(os.listdir(corpus)):
            for c in json.load(open(os.path.join(corpus, f))): cs.append(mk(*c, None))
    ncorpus = len(cs)
    cs += cases(ctx)
    lines = [c['line'] for c in cs]
    eng = ctx.engine_batch(lines, shards=8)
    ctx.cov['evaluations'] = len(lines)
    ctx.cov['corpus_cases'] = ncorpus
    ctx.cov['rule'] = ('go argument lists through the real parse_go (search intercepted): dense grid t in 1..3200 x inc x movestogo x colour around every branch boundary, powers of ten up to 1e10 ms, '
                       'random clocks/increments/movestogo/movetime/depth in shuffled order; non-trivial = clock given and no movetime (the clamped branch is exercised); distinct = distinct argument lines')
    nontriv = set(c['line'] for c in cs if c['movetime'] is None and (c['wt'] if c['side'] else c['bt']) is not None)
    ctx.cov['distinct_nontrivial'] = len(nontriv)
    hist = {}
    for c, e in zip(cs, eng):
        mytime = c['wt'] if c['side'] else c['bt']
        k = 'movetime' if c['movetime'] is not None else 'noclock' if mytime is None else 'le2000_inc0' if mytime <= 2000 and (c['wi'] if c['side'] else c['bi']) == 0 else 'le2000_inc' if mytime <= 2000 else 'gt2000'
        hist[k] = hist.get(k, 0) + 1
    ctx.cov['branch_histogram'] = hist
    for c, e in list(zip(cs, eng))[ncorpus::max(1, len(cs) // 5)][:5]:
        ctx.sample({'request': c['line'], 'engine (depth max_time)': e})
    # search for a failing input of the property itself
    bad = []
    for c, e in zip(cs, eng):
        o = oracle(c, e)
        if o: bad.append((c, e, o))
    seen = set()
    for c, e, o in bad:
        r = region(c, e)
        if r in seen: continue
        seen.add(r)
        ctx.violation('C10:' + r, o, {'request': c['line'], 'engine_answer(depth max_time)': e, 'why': o, 'failing_cases_in_this_run': len(bad)})
    # tie 2
    if ctx.model_ok:
        mod = ctx.model_batch(lines)
        dis = [(l, e, m) for l, e, m in zip(lines, eng, mod) if e != m]
        ctx.cov['model_vs_engine_disagreements'] = len(dis)
        ctx.cov['traces_validated_against_impl'] = len(lines) - len(dis)
        if dis and not bad:
            l, e, m = dis[0]
            ctx.broken.append(vlib.Broken('correspondence stream budget: engine and model differ', json.dumps({'request': l, 'engine': e, 'model': m, 'count': len(dis)})))
    budget_zero_sessions(ctx)

ZERO_GOS = ['go movetime 0', 'go wtime 1 btime 1', 'go wtime 20 btime 20', 'go wtime 25 btime 25 movestogo 40', 'go wtime 1500 btime 1500 winc 100 binc 100',
            'go wtime 900 btime 900 winc 500 binc 500', 'go wtime 3000 btime 3000', 'go wtime 2001 btime 2001', 'go wtime 29 btime 29']
ZERO_POS = [(1, 'position startpos'), (0, 'position startpos moves e2e4'), (1, 'position fen r3k2r/p1ppqpb1/bn2pnp1/3PN3/1p2P3/2N2Q1p/PPPBBPPP/R3K2R w KQkq - 0 1')]

def budget_zero_sessions(ctx, sig='C10:zero-budget-not-kept', what='the budget computed for this go is 0 ms, yet the search did not end at its first poll (it went on as if it had no limit)'):
    """A budget is there to be kept: when the budget computed for a `go` is 0 ms the deadline has passed at the search's first poll, so the
    real main loop must answer at once -- no iteration completes, no info line is printed (the session model says the same).  An engine
    that computes the right number but treats 0 as 'no limit' searches on without bound: only `go infinite` and depth-limited searches may."""
    from checks import c13
    late = c13.LATE
    todo = []
    for side, pos in ZERO_POS:
        for go in ZERO_GOS:
            todo.append((side, pos, go))
    budgets = ctx.engine_batch(['go %d %s' % (side, go[3:]) for side, pos, go in todo], shards=1)
    ran = 0; ties = []
    for (side, pos, go), b in zip(todo, budgets):
        try: mt = int(b.split()[1])
        except Exception: continue
        if mt != 0: continue
        script = [(0, pos), (0, go), (late, 'quit')]
        out = ctx.engine_session(script, extra=7, timeout=120)
        lines = c13.canon(out); ran += 1
        infos = [l for l in lines if l.startswith('info ')]
        nbest = sum(1 for l in lines if l.startswith('bestmove'))
        if infos or nbest != 1:
            ctx.violation(sig, what,
                          {'script (delay_in_polls line)': [f'{d} {l}' for d, l in script], 'budget_reported_by_parse_go': b, 'info_lines_printed': len(infos),
                           'last_info_line': infos[-1] if infos else None, 'bestmove_lines': nbest, 'request': 'go %d %s' % (side, go[3:])})
            break
        if ctx.model_ok:
            m = ctx.model_batch(['session 7 ## ' + ' ## '.join(f'{d}|{l}' for d, l in script)], shards=1)[0]
            ml = [x for x in m.split(' ;; ') if x != '']
            el = list(lines)
            if ' Exited!' in out and el and el[-1] == ' Exited!': el.append('EXIT')
            if el != ml: ties.append((script, el, ml))
    ctx.cov['zero_budget_sessions_through_the_real_main_loop'] = ran
    ctx.cov['evaluations'] += ran
    if ties and not ctx.violations:
        s, el, ml = ties[0]
        ctx.broken.append(vlib.Broken('correspondence stream zero-budget sessions: engine transcript and session model differ',
                                      json.dumps({'script': [f'{d} {l}' for d, l in s], 'engine': el[:40], 'model': ml[:40]})))

def replay(ctx, path):
    j = json.load(open(path))
    ctx.build_engine()
    l = j['replay']['request']
    e = ctx.engine_batch([l], shards=1)[0]
    print('request:', l); print('engine (depth max_time):', e)
    return 0
