"""C04 -- position keys.  proof: compiled tables = model tables; no zero / duplicate / XOR-dependence up to 4; key is a function of
placement+side+rights+ep; null move keeps the key consistent.  decided per run: after every move of every generated position the engine's
stored key equals its own from-scratch key (judge tag C04:incremental-key), and model = engine on stored and recomputed keys."""
from checks import chesscore
from checks.c01 import RULE
def run(ctx):
    chesscore.run_property(ctx, 'Props/C04.v', ['C04:'], ['AMK', 'K', 'AMH'],
        'after a move the incrementally maintained key differs from the key recomputed from scratch', RULE)
def replay(ctx, path):
    return chesscore.replay_pos(ctx, path, 'Props/C04.v')
