"""C16 -- static evaluation is pure, colour-symmetric and bounded.  proof (all positions): pure in placement+side, negated by side flip,
ignores rights / ep / clocks / key.  decided per run: the metamorphic relations on the ENGINE alone (mirror, side flip, field perturbation,
|eval| < MATE_BOUND) on every generated legal position, and engine = model on all of them."""
import json
from checks import chesscore
from checks.c01 import RULE
import vlib, posgen

def flip_side(g):
    t = g.split(); t[15] = '0' if t[15] == '1' else '1'; return ' '.join(t)
def perturb(g, rng):
    t = g.split(); t[16] = str(rng.choice([64, 16, 20, 40, 47])); t[17] = str(rng.randrange(16)); t[18] = str(rng.randrange(150)); t[19] = str(rng.randrange(1, 300)); t[20] = '%x' % rng.getrandbits(64)
    return ' '.join(t)

def run(ctx):
    res = chesscore.run_property(ctx, 'Props/C16.v', ['C16:'], ['E'],
        'static evaluation violates purity / symmetry / bound', RULE + '; plus for each legal position its colour mirror, its side flip and a copy with random rights/ep/clocks/key')
    if res is None or ctx.engine is None: return
    rng = ctx.rng
    wfpos = [g for (fam, g), ok in zip(res['pos'], res['wf']) if ok]
    lines = []
    for g in wfpos:
        lines += ['eval ' + g, 'eval ' + posgen.mirror_fields(g), 'eval ' + flip_side(g), 'eval ' + perturb(g, rng)]
    eng = ctx.engine_batch(lines, shards=8)
    ctx.cov['evaluations'] += len(lines); ctx.cov['metamorphic_quadruples'] = len(wfpos)
    bound = 48000
    seen = set()
    for i, g in enumerate(wfpos):
        try:
            e, em, ef, ep = [int(x) for x in eng[4 * i:4 * i + 4]]
        except ValueError:
            ctx.violation('C16:panic', 'evaluate did not return a number', {'fen': posgen.fields_to_fen(g), 'answers': eng[4 * i:4 * i + 4]}); break
        probs = []
        if em != e: probs.append(('mirror', f'evaluate(position)={e} but evaluate(colour mirror)={em}'))
        if ef != -e: probs.append(('side', f'evaluate={e} but with only the side to move switched {ef}'))
        if ep != e: probs.append(('fields', f'evaluate={e} but {ep} after changing only rights/ep/clocks/key'))
        if abs(e) >= bound: probs.append(('bound', f'|evaluate|={abs(e)} reaches the mate range'))
        for k, w in probs:
            if k in seen: continue
            seen.add(k)
            ctx.violation('C16:' + k, w, {'fen': posgen.fields_to_fen(g), 'game_fields': g, 'mirror_fields': posgen.mirror_fields(g), 'engine': {'eval': e, 'mirror': em, 'side_flipped': ef, 'perturbed': ep}})
    if ctx.model_ok:
        # the mirror function of the theorem (Model/Sym.v, extracted) is the mirror this check applies: placement, occupancies, mover
        mm = ctx.model_batch(['mirror ' + g for g in wfpos])
        bad = [(g, m) for g, m in zip(wfpos, mm) if m.split()[:16] != posgen.mirror_fields(g).split()[:16]]
        ctx.cov['coq_mirror_equals_check_mirror_on'] = len(wfpos) - len(bad)
        if bad:
            ctx.broken.append(vlib.Broken('the extracted Sym.mirror and the mirror used by the metamorphic check differ', json.dumps({'game_fields': bad[0][0], 'coq_mirror': bad[0][1], 'check_mirror': posgen.mirror_fields(bad[0][0])})))
        mod = ctx.model_batch(lines)
        dis = [(l, a, b) for l, a, b in zip(lines, eng, mod) if a != b]
        ctx.cov['model_vs_engine_disagreements'] = ctx.cov.get('model_vs_engine_disagreements', 0) + len(dis)
        if dis and not seen:
            l, a, b = dis[0]
            ctx.broken.append(vlib.Broken('correspondence stream eval: engine and model differ', json.dumps({'request': l, 'engine': a, 'model': b, 'count': len(dis)})))
    if lines: ctx.sample({'request': lines[0][:200], 'engine (pos, mirror, flipped, perturbed)': eng[:4]})
def replay(ctx, path):
    return chesscore.replay_pos(ctx, path, 'Props/C16.v')
