"""C13 -- UCI liveness: every command is answered, none is lost, quit/EOF terminate.
proof: Props/C13.v (the main loop as a state machine).  tie: scripted sessions through the REAL main loop (scripted-input hook, deterministic
arrival of lines relative to the search's polls, extra polls so that small searches have many poll points) vs the extracted session model.
search for a failing input: the liveness rules themselves on the engine's transcript (one readyok per isready, one bestmove per go, uciok,
the command after stop handled, exit at quit / end of input) + black-box runs through a real pipe with real timing."""
import json, re, subprocess, time, os
import vlib

POS = ['position startpos', 'position startpos moves e2e4 e7e5', 'position fen 8/2p5/3p4/KP5r/1R3p1k/8/4P1P1/8 w - - 0 10',
       'position fen 6k1/5ppp/8/8/8/8/8/R6K w - - 0 1', 'position startpos moves g1f3 g8f6 f3g1 f6g8']

LATE = 20000    # more polls than any scripted depth-limited search makes: the line is read by the main loop after the search

def canon(out):
    """engine transcript -> canonical list of lines (markers dropped, time masked, display collapsed, readyok moved to the front of its search block)"""
    lines = out.split('\n'); res = []; i = 0; block = None; requeued = None; perft_lines = []
    while i < len(lines):
        l = lines[i]
        if l.startswith('@READ go') or (l.startswith('@READ') and False):
            block = []; i += 1; continue
        if l.startswith('@POLLREAD '):
            x = l[len('@POLLREAD '):].strip()
            if x not in ('isready', '', 'stop'): requeued = x      # handed back to the main loop: executed next, without a @READ marker
        if l.startswith('@'):
            if l.startswith('@READ-PAST-END'): res.append('PANIC')
            i += 1; continue
        if '┌' in l:
            j = i
            while j < len(lines) and 'Zobrist' not in lines[j]: j += 1
            z = re.search(r'Zobrist:\s+(0x[0-9a-f]+)', lines[j]).group(1) if j < len(lines) else '?'
            res.append('DISPLAY ' + z); i = j + 2; continue
        if l.strip() == '' and not l.startswith(' '): i += 1; continue
        if re.match(r'^[a-h][1-8][a-h][1-8]: \d+$', l): perft_lines.append(l); i += 1; continue      # perft's per-move lines (any order)
        pm = re.match(r'^ Found (\d+) moves for depth (\d+) in \d+ms$', l)
        if pm:
            res.append(f'PERFT {pm.group(2)} {pm.group(1)} [' + ','.join(sorted(perft_lines)) + ']'); perft_lines = []; i += 1; continue
        l = re.sub(r' time \d+', ' time T', l)
        if block is not None:
            if l == 'readyok': res.append(l)          # answered in place; placed before the block's info lines
            else: block.append(l)
            if l.startswith('bestmove'):
                res += block; block = None
                if requeued is not None and requeued.split()[:1] and requeued.split()[0].lower() == 'go': block = []
                requeued = None
        else: res.append(l)
        i += 1
    if block: res += block
    return res

def transcripts(out, m):
    """(engine transcript, model transcript) in the common canonical form"""
    exited = ' Exited!' in out and '@TIMEOUT' not in out and '@EXIT' not in out
    el = canon(out); ml = [x for x in m.split(' ;; ') if x != '']
    if exited and el and el[-1] == ' Exited!': el.append('EXIT')
    elif '@EXIT' in out or 'PANIC' in el: el = [x for x in el if x != 'PANIC'] + ['PANIC']
    return el, ml

def is_go(l):
    """a `go` line a GUI may legally send (the property's quantifier): a `depth` keyword is followed by a number.  `go depth x` and a bare
    `go depth` are malformed; the engine returns from parse_go without searching (the model's GoReturn; the theorem's answerable_go excludes them too).
    Such lines are still compared with the model's transcript, they just do not count as searches to be answered."""
    t = l.split()
    if t[:1] != ['go']: return False
    for i, w in enumerate(t):
        if w == 'depth' and (i + 1 >= len(t) or not re.fullmatch(r'[+-]?\d+', t[i + 1])): return False
    return True

def liveness(script, lines, exited):
    """the property itself on the canonical transcript"""
    probs = []
    n_ready = sum(1 for d, l in script if l.strip() == 'isready')
    n_go = sum(1 for d, l in script if is_go(l))
    n_uci = sum(1 for d, l in script if l.strip() == 'uci')
    quits = [i for i, (d, l) in enumerate(script) if l.strip() in ('quit', 'exit', 'x')]
    if quits:   # commands after the first quit are never read
        upto = script[:quits[0]]
        n_ready = sum(1 for d, l in upto if l.strip() == 'isready'); n_go = sum(1 for d, l in upto if is_go(l)); n_uci = sum(1 for d, l in upto if l.strip() == 'uci')
    if lines.count('readyok') != n_ready: probs.append(f'readyok-count({lines.count("readyok")} for {n_ready} isready)')
    nb = sum(1 for l in lines if l.startswith('bestmove'))
    if nb != n_go: probs.append(f'bestmove-count({nb} for {n_go} go)')
    if lines.count('uciok') != n_uci: probs.append('uciok-count')
    if not exited: probs.append('no-exit-at-quit-or-eof')
    return probs

def gen_session(rng):
    s = []
    if rng.random() < 0.7: s.append((0, 'uci'))
    for _ in range(rng.randrange(1, 6)):
        c = rng.random()
        if c < 0.25: s.append((0, rng.choice(POS)))
        elif c < 0.35: s.append((0, 'isready'))
        elif c < 0.45: s.append((0, 'ucinewgame'))
        elif c < 0.5: s.append((0, rng.choice(['eval', 'd', 'foo', 'stop', 'perft 1', 'perft 2', 'perft! 2', 'perft simple'])))
        elif c < 0.7:
            s.append((0, f'go depth {rng.choice([1, 2, 3])}'))
            # what arrives while / after it runs
            k = rng.random()
            if k < 0.3: s.append((rng.choice([0, 1, 2, 5]), 'isready'))
            elif k < 0.5: s.append((rng.choice([0, 1, 3]), 'stop')); s.append((0, rng.choice(['isready', rng.choice(POS)])))
            elif k < 0.6: s.append((rng.choice([0, 2]), rng.choice(POS)))
        elif c < 0.9:
            s.append((0, rng.choice(['go infinite', 'go'])))
            k = rng.random()
            pre = [(rng.choice([0, 1, 2]), 'isready')] * rng.choice([0, 0, 1, 2])
            if k < 0.5: s += pre + [(rng.choice([0, 1, 4, 9]), 'stop'), (0, rng.choice(['isready', 'uci', rng.choice(POS)]))]
            elif k < 0.75: s += pre + [(rng.choice([0, 2, 6]), 'quit')]
            elif k < 0.9: s += pre + [(rng.choice([0, 3]), rng.choice(POS)), (0, 'go depth 1')]
            else: s += pre      # end of input arrives during the search
        else: s.append((0, 'go movetime 0'))
    if rng.random() < 0.5: s.append((0, 'quit'))
    return s

def run(ctx):
    vlib.standard_prepare(ctx, 'Props/C13.v')
    if ctx.engine is None: return
    rng = ctx.rng
    extra = 7
    sessions = [
        [(0, 'uci'), (0, 'isready'), (0, 'go infinite'), (1, 'isready'), (2, 'stop'), (0, 'isready')],
        [(0, 'go infinite'), (3, 'quit')],
        [(0, 'go')],
        [(0, 'go depth 128'), (2, 'stop'), (0, 'isready')],
        [(0, 'position startpos moves e2e4'), (0, 'go infinite'), (0, 'stop'), (0, 'position startpos'), (0, 'go depth 1')],
        [(0, 'go movetime 0'), (0, 'isready')],
        [],
        # resets without any position command in between (the tables must be cleared whatever the game history holds)
        [(0, 'go depth 3'), (LATE, 'ucinewgame'), (0, 'go depth 3'), (LATE, 'isready')],
        [(0, 'position startpos moves e2e4'), (0, 'go depth 2'), (LATE, 'ucinewgame'), (0, 'go depth 3'), (LATE, 'ucinewgame'), (0, 'go depth 3'), (LATE, 'isready')],
        [(0, 'go depth 2'), (LATE, 'cleartt'), (0, 'position startpos'), (0, 'go depth 3'), (LATE, 'quit')],
        # the console commands of the main loop: move (plays on from the current position), perft N, perft! N, perft simple, bare perft
        [(0, 'position startpos'), (0, 'move e2e4 e7e5'), (0, 'd'), (0, 'go depth 2'), (LATE, 'perft 2'), (0, 'perft 1'), (0, 'perft! 2'), (0, 'perft simple'), (0, 'perft'), (0, 'd'), (0, 'isready')],
        [(0, 'move g1f3'), (0, 'move g8f6 f3g1'), (0, 'd'), (0, 'perft 3'), (0, 'go depth 1'), (LATE, 'move f6g8'), (0, 'go depth 2'), (LATE, 'd')],
        [(0, 'position fen r3k2r/p1ppqpb1/bn2pnp1/3PN3/1p2P3/2N2Q1p/PPPBBPPP/R3K2R w KQkq - 0 1'), (0, 'perft 2'), (0, 'move e1g1'), (0, 'perft 2'), (0, 'd'), (0, 'eval')],
        [(0, 'position fen 8/2p5/3p4/KP5r/1R3p1k/8/4P1P1/8 w - - 0 10 moves e2e4'), (0, 'move h4g5'), (0, 'd'), (0, 'perft! 3'), (0, 'go depth 2')],
        # the word-by-word argument loop of `go` (Model/Uci.v go_tokens, which Proofs/GoTokens.v relates to the pair-level loop of C10): the other colour's clock
        # arguments are skipped unparsed, unknown words are reported and skipped, a malformed or missing depth returns without searching
        [(0, 'position startpos'), (0, 'go btime x depth 2'), (LATE, 'go foo depth 1'), (LATE, 'go depth x'), (0, 'go depth'), (0, 'go binc 7 winc 3 depth 2'),
         (LATE, 'position startpos moves e2e4'), (0, 'go wtime y winc z depth 1'), (LATE, 'go btime 5000 wtime q movetime 0'), (LATE, 'isready')],
    ]
    n = 60 if ctx.tier == 'quick' else 3000
    for _ in range(n): sessions.append(gen_session(rng))
    kinds = {}; bad = {}; ties = []; compared = 0
    mlines = ['session %d ## ' % extra + ' ## '.join(f'{d}|{l}' for d, l in s) if s else 'session %d' % extra for s in sessions]
    mod = ctx.model_batch(mlines) if ctx.model_ok else [None] * len(sessions)
    for s, m in zip(sessions, mod):
        for d, l in s:
            k = ' '.join(l.split()[:2]) if l.startswith(('go', 'position')) else l
            k = k.split(' moves')[0][:20]; kinds[k] = kinds.get(k, 0) + 1
        out = ctx.engine_session(s, extra=extra, timeout=60)
        exited = ' Exited!' in out and '@TIMEOUT' not in out and '@EXIT' not in out
        c = canon(out)
        probs = liveness(s, c, exited)
        for p in probs:
            sig = 'C13:' + re.sub(r'\(.*', '', p)
            if sig not in bad: bad[sig] = (p, s, out)
        if m is not None:
            el, ml = transcripts(out, m)
            compared += 1
            if el != ml: ties.append((s, el, ml))
    ctx.cov['evaluations'] = len(sessions); ctx.cov['distinct_nontrivial'] = len(set(json.dumps(s) for s in sessions if any(l.startswith('go') for d, l in s)))
    ctx.cov['command_histogram'] = kinds
    ctx.cov['rule'] = ('scripted UCI sessions through the real main loop: uci / isready / ucinewgame / position / go depth N / go infinite / bare go / go movetime 0 / stop / quit / unknown, '
                       'with lines arriving 0..9 polls into the running search (extra poll every %d nodes) and end of input at any point; non-trivial = the session contains a go; distinct = distinct scripts' % extra)
    ctx.cov['model_vs_engine_disagreements'] = len(ties); ctx.cov['traces_validated_against_impl'] = compared - len(ties)
    ctx.sample({'script': [f'{d} {l}' for d, l in sessions[0]], 'engine_transcript': canon(ctx.engine_session(sessions[0], extra=extra))})
    # black-box: the real reader thread and a real pipe
    bb = blackbox(ctx)
    ctx.cov['blackbox_pipe_runs'] = bb['runs']
    for sig, v in bb['bad'].items():
        if sig not in bad: bad[sig] = v
    for sig, (p, s, out) in bad.items():
        ctx.violation(sig, 'UCI liveness: ' + p, {'script (delay_in_polls line)': [(f'{x[0]} {x[1]}' if isinstance(x, tuple) else str(x)) for x in s] if isinstance(s, list) else s, 'engine_transcript': out[-2500:]})
    if ties and not bad:
        s, el, ml = min(ties, key=lambda t: len(t[0]))
        ctx.broken.append(vlib.Broken('correspondence stream uci-session: engine transcript and session model differ',
                                      json.dumps({'script': [f'{d} {l}' for d, l in s], 'engine': el[-25:], 'model': ml[-25:], 'sessions_differing': len(ties)})))

def blackbox(ctx):
    """real stdin pipe, real reader thread, wall-clock timing: samples what the model cannot exhibit"""
    res = {'runs': 0, 'bad': {}}
    exe = os.path.join(vlib.TARGET, 'release', 'nebel_chess_engine')
    if not os.path.exists(exe): exe = ctx.engine
    def session(steps, wait_exit=5.0):
        p = subprocess.Popen([exe], stdin=subprocess.PIPE, stdout=subprocess.PIPE, stderr=subprocess.PIPE, text=True, bufsize=1)
        try:
            for line, pause in steps:
                if line is None:
                    p.stdin.close(); p.stdin = None
                else:
                    try: p.stdin.write(line + '\n'); p.stdin.flush()
                    except (BrokenPipeError, ValueError): pass
                time.sleep(pause)
            if p.stdin is not None:
                try: p.stdin.close()
                except Exception: pass
                p.stdin = None
            t0 = time.time()
            try: out, err = p.communicate(timeout=wait_exit); return out, p.returncode, time.time() - t0
            except subprocess.TimeoutExpired:
                p.kill(); out, err = p.communicate(); return out, None, wait_exit
        finally:
            if p.poll() is None: p.kill()
    cases = [
        ('isready-during-search', [('position startpos', 0), ('go infinite', 0.3), ('isready', 0.3), ('stop', 0.2), ('isready', 0.1), ('quit', 0)], lambda o, rc: o.count('readyok') == 2 and o.count('bestmove') == 1 and rc == 0),
        ('quit-during-search', [('go infinite', 0.3), ('quit', 0)], lambda o, rc: rc == 0 and o.count('bestmove') == 1),
        ('eof-during-search', [('go infinite', 0.3), (None, 0)], lambda o, rc: rc == 0 and o.count('bestmove') == 1),
        ('eof-idle', [('uci', 0.1), (None, 0)], lambda o, rc: rc == 0 and 'uciok' in o),
        ('command-after-stop', [('go infinite', 0.2), ('stop', 0), ('isready', 0.3), ('quit', 0)], lambda o, rc: o.count('readyok') == 1 and o.count('bestmove') == 1 and rc == 0),
        ('movetime', [('go movetime 50', 0.5), ('isready', 0.1), ('quit', 0)], lambda o, rc: o.count('bestmove') == 1 and o.count('readyok') == 1 and rc == 0),
        # searches with a time limit must stay just as responsive (the budgets are far longer than the 5 s the session is given to end)
        ('isready-stop-during-movetime-search', [('position startpos', 0), ('go movetime 30000', 0.5), ('isready', 0.5), ('stop', 0.3), ('isready', 0.1), ('quit', 0)],
            lambda o, rc: o.count('readyok') == 2 and o.count('bestmove') == 1 and rc == 0),
        ('quit-during-clock-search', [('position startpos moves e2e4', 0), ('go wtime 900000 btime 900000 winc 1000 binc 1000', 0.5), ('quit', 0)], lambda o, rc: rc == 0 and o.count('bestmove') == 1),
        ('eof-during-movetime-search', [('go movetime 30000', 0.5), (None, 0)], lambda o, rc: rc == 0 and o.count('bestmove') == 1),
    ]
    for name, steps, ok in cases:
        out, rc, dt = session(steps)
        res['runs'] += 1
        if not ok(out, rc):
            res['bad']['C13:blackbox-' + name] = (f'black-box pipe session `{name}` violated liveness (exit code {rc}, {dt:.1f}s)', [f'{l} (then wait {w}s)' for l, w in steps], out)
    return res

def replay(ctx, path):
    j = json.load(open(path)); ctx.build_engine()
    sc = j['replay'].get('script (delay_in_polls line)', [])
    s = []
    for x in sc:
        try: d, l = x.split(' ', 1); s.append((int(d), l))
        except ValueError: pass
    print(ctx.engine_session(s, extra=7))
    return 0
