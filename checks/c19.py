"""C19 -- shallow searches return the exact minimax value.
proof: Props/C19.v (what is proved for all inputs is stated there); decided per run: with the TT bypassed, every in-window iteration
score at depth 1 and 2 printed by the real engine equals the extracted reference minimax (Spec/Minimax.v) on generated legal positions."""
import json, re
from checks import chesscore, searchcore
import vlib, posgen

def run(ctx):
    vlib.standard_prepare(ctx, 'Props/C19.v')
    if ctx.engine is None or not ctx.model_ok: return
    res = chesscore.collect(ctx)
    rng = ctx.rng
    cand = [g for (fam, g), ok in zip(res['pos'], res['wf']) if ok and int(g.split()[18]) < 90]
    cand = [g for g in cand if chesscore.sections(res['eng'][[x[1] for x in res['pos']].index(g)]).get('P', '0 0').split()[0] != '0']   # non-terminal
    n = 400 if ctx.tier == 'quick' else 8000
    cand = cand if len(cand) <= n else rng.sample(cand, n)
    lines0 = [searchcore.seq_line([searchcore.mk_search(2, -1, 0, 1, 0, [], g)]) for g in cand]
    eng0 = ctx.engine_batch(lines0, shards=8)
    # the reference is evaluated by the verified alpha-beta twin (Spec/AlphaBeta.v); a node budget keeps the run short
    budget = 5000 if ctx.tier == 'quick' else 20000
    keep = []
    for g, e in zip(cand, eng0):
        m = re.search(r'END .* nodes=(\d+)', e)
        if m and int(m.group(1)) <= budget: keep.append((g, e))
    ctx.cov['candidates'] = len(cand); ctx.cov['skipped_search_above_node_budget'] = len(cand) - len(keep)
    sel = [g for g, e in keep]; eng = [e for g, e in keep]
    lines = [searchcore.seq_line([searchcore.mk_search(2, -1, 0, 1, 0, [], g)]) for g in sel]
    mod = ctx.model_batch(lines)
    mm = {}
    reqs = []
    for g in sel:
        reqs += [f'minimax 1 {g}', f'minimax 2 {g}']
    vals = ctx.model_batch(reqs)
    compared = 0; failed_windows = 0; bad = []
    for i, (g, e) in enumerate(zip(sel, eng)):
        want = {1: vals[2 * i], 2: vals[2 * i + 1]}
        seen = set()
        for l in e.split(' || ')[0].split(' ;; '):
            m = re.match(r'info score (cp|mate) (-?\d+) depth (\d+) ', l)
            if not m: continue
            d = int(m.group(3)); seen.add(d)
            if m.group(1) == 'cp':
                got = int(m.group(2))
            else:
                nn = int(m.group(2)); w = int(want[d])
                got = w if ((nn > 0 and w == 49000 - (2 * nn - 1)) or (nn < 0 and w == -49000 + 2 * (-nn))) else None
            compared += 1
            if got is None or str(got) != want[d]:
                bad.append((g, d, l, want[d]))
        failed_windows += (2 not in seen)
    ctx.cov['evaluations'] = len(sel)
    ctx.cov['distinct_nontrivial'] = len(set(sel))
    ctx.cov['iteration_scores_compared'] = compared
    ctx.cov['depth2_iterations_outside_window (not printed, not compared)'] = failed_windows
    ctx.cov['rule'] = ('legal non-terminal positions (seed families, playouts, mirrors; half-move clock < 90, empty history), go depth 2 with the TT bypassed; '
                       'every printed iteration score (depth 1, depth 2) vs the reference minimax. all cases non-trivial (a legal move exists); distinct = distinct positions')
    for g, e in list(zip(sel, eng))[:3]:
        ctx.sample({'fen': posgen.fields_to_fen(g), 'engine': e.split(' || ')[0][:200]})
    for g, d, l, w in bad[:1]:
        ctx.violation('C19:score', 'an in-window iteration score differs from the exact minimax value',
                      {'fen': posgen.fields_to_fen(g), 'game_fields': g, 'depth': d, 'engine_info_line': l, 'reference_minimax': w, 'failing': len(bad)})
    dis = [(l, a, b) for l, a, b in zip(lines, eng, mod) if a != b]
    ctx.cov['model_vs_engine_disagreements'] = len(dis)
    ctx.cov['traces_validated_against_impl'] = len(lines) - len(dis)
    if dis and not bad:
        l, a, b = dis[0]
        ctx.broken.append(vlib.Broken('correspondence stream search (TT bypassed): engine and model differ', json.dumps({'request': l[:1500], 'engine': a[:800], 'model': b[:800], 'count': len(dis)})))

def replay(ctx, path):
    j = json.load(open(path)); vlib.standard_prepare(ctx, 'Props/C19.v')
    g = j['replay']['game_fields']
    e = ctx.engine_batch([searchcore.seq_line([searchcore.mk_search(2, -1, 0, 1, 0, [], g)])], shards=1)[0]
    v = ctx.model_batch([f'minimax 1 {g}', f'minimax 2 {g}'], shards=1)
    print('engine:', e.split(' || ')[0]); print('minimax d1, d2:', v)
    return 0
