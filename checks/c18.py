"""C18 -- search is reproducible and `ucinewgame` restores a fresh engine.
proof: Props/C18.v.  decided per run on the real engine (black-box through the real UCI main loop with scripted input):
  (a) every search scenario of the shared stream is run a second time in a fresh process and must answer identically;
  (b) for generated command histories H (positions, depth-limited and interrupted searches, perft, eval, d, isready):
      `H; ucinewgame; position P; go depth d` must print exactly what a fresh process prints for `position P; go depth d` (time masked)."""
import json, re
from checks import searchcore
import vlib, posgen

GAMES = [
 ['e2e4', 'e7e5', 'g1f3', 'b8c6', 'f1b5', 'a7a6', 'b5a4', 'g8f6', 'e1g1'],
 ['d2d4', 'd7d5', 'c2c4', 'e7e6', 'b1c3', 'g8f6', 'c1g5', 'f8e7'],
 ['g1f3', 'g8f6', 'f3g1', 'f6g8', 'g1f3', 'g8f6'],
 ['e2e4', 'c7c5', 'g1f3', 'd7d6', 'd2d4', 'c5d4', 'f3d4', 'g8f6', 'b1c3', 'a7a6'],
]
FENS = ['r3k2r/p1ppqpb1/bn2pnp1/3PN3/1p2P3/2N2Q1p/PPPBBPPP/R3K2R w KQkq - 0 1', '8/2p5/3p4/KP5r/1R3p1k/8/4P1P1/8 w - - 0 10',
        '6k1/5ppp/8/8/8/8/8/R6K w - - 0 1', '4k3/8/8/8/8/8/4P3/4K2R w K - 98 80']

def mask(text):
    return re.sub(r' time \d+', ' time T', text)

def tail_after_last_go(out):
    lines = out.split('\n')
    idx = max(i for i, l in enumerate(lines) if l.startswith('@READ go '))
    keep = []
    for l in lines[idx + 1:]:
        if l.startswith('@READ'): break
        keep.append(l)
    return mask('\n'.join(keep))

def rand_history(rng):
    H = []
    for blk in range(rng.randrange(1, 5)):
        c = rng.random()
        if blk == 0 and c < 0.3:
            pass                  # no position command yet: searches on the start-up position with an empty game history
        elif blk > 0 and c < 0.15:
            H.append((0, 'ucinewgame'))   # a reset in the middle, possibly followed by searches without a new position command
        elif c < 0.5:
            g = rng.choice(GAMES); k = rng.randrange(0, len(g) + 1)
            H.append((0, 'position startpos' + (' moves ' + ' '.join(g[:k]) if k else '')))
        else:
            H.append((0, 'position fen ' + rng.choice(FENS)))
        for _ in range(rng.randrange(0, 3)):
            c2 = rng.random()
            if c2 < 0.45:
                H.append((0, f'go depth {rng.choice([1, 2, 3, 4])}')); nxt = 10**9
            elif c2 < 0.6:
                H.append((0, f'go depth {rng.choice([5, 6])}')); H.append((rng.choice([0, 1]), 'stop')); nxt = 0
            elif c2 < 0.7: H.append((0, 'perft 2')); nxt = 0
            elif c2 < 0.8: H.append((0, 'eval')); nxt = 0
            elif c2 < 0.9: H.append((0, 'd')); nxt = 0
            else: H.append((0, 'isready')); nxt = 0
    # fix delays: the line after a depth-limited go must not arrive before the search ends
    out = []
    for i, (d, l) in enumerate(H):
        if i > 0 and H[i - 1][1].startswith('go depth') and l != 'stop': d = 10**9
        out.append((d, l))
    return out

def run(ctx):
    vlib.standard_prepare(ctx, 'Props/C18.v', need_model=True)
    if ctx.engine is None: return
    rng = ctx.rng
    # (a) run-to-run determinism on the shared scenarios
    sres = searchcore.collect(ctx) if ctx.model_ok else None
    ndet = 0
    if sres:
        idx = list(range(len(sres['sc'])))
        if ctx.tier == 'quick': idx = idx[::3]
        lines = [searchcore.seq_line(sres['sc'][i][2]) for i in idx]
        again = ctx.engine_batch(lines, shards=5)
        ndet = len(lines)
        for i, a in zip(idx, again):
            if a != sres['eng'][i]:
                k, n, ss = sres['sc'][i]
                ctx.violation('C18:nondeterministic', 'the same search scenario run in two fresh processes printed different answers',
                              {'scenario': f'{k}:{n}', 'request': lines[idx.index(i)][:3000], 'first_run': sres['eng'][i][:1500], 'second_run': a[:1500]}); break
    # (b) ucinewgame vs fresh process
    nh = 40 if ctx.tier == 'quick' else 2000
    ncmp = 0; kinds = {}
    for _ in range(nh):
        H = rand_history(rng)
        for d, l in H:
            k = l.split()[0] + (' depth' if l.startswith('go') else ''); kinds[k] = kinds.get(k, 0) + 1
        P = rng.choice(['position startpos moves ' + ' '.join(rng.choice(GAMES)[:rng.randrange(1, 6)]), 'position fen ' + rng.choice(FENS)])
        d = rng.choice([2, 3, 4])
        tail = [(0, P), (0, f'go depth {d}'), (10**9, 'd'), (0, 'quit')]
        delay_first = 10**9 if (H and H[-1][1].startswith('go depth')) else 0
        a = ctx.engine_session(H + [(delay_first, 'ucinewgame')] + tail)
        b = ctx.engine_session(tail)
        ncmp += 1
        try:
            ta, tb = tail_after_last_go(a), tail_after_last_go(b)
            da, db = a.split('@READ d')[-1], b.split('@READ d')[-1]
        except ValueError:
            ta, tb, da, db = a, b, '', ''
        if ta != tb or da != db or '@TIMEOUT' in a or '@EXIT' in a:
            ctx.violation('C18:ucinewgame', 'after ucinewgame the engine does not answer like a freshly started process',
                          {'history': [f'{x} {y}' for x, y in H], 'then': [P, f'go depth {d}'], 'after_ucinewgame': ta[:1500], 'fresh_process': tb[:1500],
                           'display_after': da[-600:], 'display_fresh': db[-600:]})
            break
        if ncmp <= 2: ctx.sample({'history': [f'{x} {y}' for x, y in H], 'then': [P, f'go depth {d}'], 'answer': ta[:300]})
    ctx.cov['evaluations'] = ndet + ncmp
    ctx.cov['distinct_nontrivial'] = ndet + ncmp
    ctx.cov['determinism_reruns'] = ndet; ctx.cov['ucinewgame_histories'] = ncmp; ctx.cov['history_command_histogram'] = kinds
    ctx.cov['rule'] = ('(a) shared search scenarios re-run in a fresh process, answers compared literally; (b) random command histories (position startpos/fen with moves, go depth 1-6, '
                       'interrupted go, perft, eval, d, isready) followed by ucinewgame + position + go depth d, compared with a fresh process (time masked, `d` output included). every case is non-trivial')

def replay(ctx, path):
    j = json.load(open(path)); ctx.build_engine()
    r = j['replay']
    if 'history' in r:
        H = [(int(x.split(' ', 1)[0]), x.split(' ', 1)[1]) for x in r['history']]
        tail = [(0, r['then'][0]), (0, r['then'][1]), (10**9, 'd'), (0, 'quit')]
        print(ctx.engine_session(H + [(10**9, 'ucinewgame')] + tail)); print('---- fresh ----'); print(ctx.engine_session(tail))
    return 0
