"""C15 -- attack tables are exact for every square and every occupancy.
proof: Props/C15.v (PEXT/PDEP algebra by induction over 64 bit positions; mask lemma; reflection over all 107,648 generated
table entries; leapers by reflection over 64 squares).  tie 1: Gen/Tables.v IS the build output.  tie 2 / search: the real getters
(real _pext_u64) vs the extracted specification (ray walks) on random full occupancies and on table indices."""
import json, os, re
import vlib

def pdep(i, mask):
    r = 0; k = 0
    for b in range(64):
        if mask >> b & 1:
            if i >> k & 1: r |= 1 << b
            k += 1
    return r

def read_masks(ctx):
    s = open(ctx.consts_rs).read()
    def arr(n):
        m = re.search(r'(?:const|static)\s+' + n + r'\s*:\s*\[[a-z0-9]+;\s*\d+\]\s*=\s*\[(.*?)\];', s, flags=re.S)
        return [int(x) for x in re.findall(r'\d+', m.group(1))]
    return arr('ROOK_MASK'), arr('BISHOP_MASK')

def run(ctx):
    vlib.standard_prepare(ctx, 'Props/C15.v')
    if ctx.engine is None: return
    rng = ctx.rng
    lines = []
    try:
        rm, bm = read_masks(ctx)
    except Exception:
        rm = bm = [0] * 64
    stride = 16 if ctx.tier == 'quick' else 1
    nidx = 0
    for sq in range(64):
        for mask in (rm[sq], bm[sq]):
            n = 1 << bin(mask).count('1')
            start = rng.randrange(stride)
            for i in range(start, n, stride):
                occ = pdep(i, mask) | (rng.getrandbits(64) & ~mask & (2**64 - 1) if rng.random() < 0.7 else 0)
                lines.append('att %d %x' % (sq, occ)); nidx += 1
    nrand = 20000 if ctx.tier == 'quick' else 400000
    for _ in range(nrand):
        sq = rng.randrange(64)
        c = rng.random()
        occ = rng.getrandbits(64)
        if c < 0.3: occ &= rng.getrandbits(64)
        elif c < 0.5: occ &= rng.getrandbits(64) & rng.getrandbits(64)
        elif c < 0.55: occ = 0
        elif c < 0.6: occ = 2**64 - 1
        lines.append('att %d %x' % (sq, occ))
    eng = ctx.engine_batch(lines, shards=8)
    ctx.cov['evaluations'] = len(lines)
    ctx.cov['distinct_nontrivial'] = len(set(lines))
    ctx.cov['rule'] = ('att <square> <occupancy>: all seven public getters. table-index cases: occupancy = pdep(index, mask) plus random irrelevant bits, every %d-th index of every square (stride 1 = all 107,648 in thorough); '
                       'random cases: dense / sparse / empty / full 64-bit occupancies. every case is non-trivial (a slider lookup through the real PEXT); distinct = distinct request lines' % stride)
    ctx.cov['table_index_cases'] = nidx; ctx.cov['random_cases'] = nrand
    ctx.cov['exhaustive'] = False
    ctx.cov['exhaustive_in_proof'] = 'check_all_true enumerates all 107,648 table entries inside the kernel (vm_compute)'
    for l, e in list(zip(lines, eng))[::max(1, len(lines) // 4)][:4]:
        ctx.sample({'request': l, 'engine (rook bishop queen knight king wpawn bpawn)': e})
    if ctx.model_ok:
        mod = ctx.model_batch(lines)
        bad = [(l, e, m) for l, e, m in zip(lines, eng, mod) if e != m]
        ctx.cov['model_vs_engine_disagreements'] = len(bad)
        ctx.cov['traces_validated_against_impl'] = len(lines) - len(bad)
        names = ['rook', 'bishop', 'queen', 'knight', 'king', 'wpawn', 'bpawn']
        seen = set()
        for l, e, m in bad:
            et, mt = e.split(), m.split()
            which = [n for n, a, b in zip(names, et, mt) if a != b] if len(et) == len(mt) == 7 else ['malformed']
            sig = 'C15:' + '+'.join(which)
            if sig in seen: continue
            seen.add(sig)
            ctx.violation(sig, 'an attack getter differs from the rules (slide up to and including the first occupied square / leaper pattern)',
                          {'request': l, 'engine': dict(zip(names, et)), 'specification': dict(zip(names, mt)), 'differing': which, 'failing_cases_in_this_run': len(bad)})

def replay(ctx, path):
    j = json.load(open(path))
    vlib.standard_prepare(ctx, 'Props/C15.v')
    l = j['replay']['request']
    e = ctx.engine_batch([l], shards=1)[0]; m = ctx.model_batch([l], shards=1)[0]
    print('request:', l); print('engine:', e); print('spec  :', m)
    return 0 if e == m else 1
