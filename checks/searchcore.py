"""Shared search streams for C03, C06, C07, C09, C11, C12, C17, C18, C19.
Scenarios (all deterministic: polls are scripted through the poll hook, never the clock):
  cold     seed positions x depth 1..3, cold TT, no history
  games    playouts with reversible shuffling; consecutive searches on successive positions of one game with a WARM TT and the
           full game history (base .. root) in the repetition table
  stops    small searches with a poll at every node (extra-poll hook) and the stop injected at EVERY poll index k
  bypass   depth 1..2 with the TT bypassed (C19)
Each search is answered by the real engine (searchseq request, hooks on) and by the extracted model; the engine's answer is
judged by the extracted monitors (judgesearch: PV legality, bestmove legality, node/verdict/repetition/frame/cadence monitors)."""
import os, json, hashlib, pickle, time, re
import vlib, posgen

LIGHT = ['pos3', 'ep_hpin', 'ep_hpin_b', 'ep_dpin', 'ep_dpin2', 'ep_disc', 'ep_check', 'ep_evade', 'ep_two', 'promo_check', 'double_check',
         'mate0', 'stalemate', 'mate_in_1', 'mated_in_1', 'mate_in_2', 'kq_k', 'kr_k', 'hmc98', 'hmc99', 'hmc100', 'pins', 'pins2', 'endgame',
         'castle_free', 'castle_free_b', 'castle_att_f1', 'castle_knight', 'promo_all', 'promo_b', 'double_check2', 'castle_rights_subset',
         'smother', 'promo_mate', 'kq_mate1', 'kr_mate1', 'kr_mate2', 'kq_mated2', 'backrank_b',
         'castle_blk_b1', 'castle_blk_b8', 'castle_blk_g1', 'castle_blk_g8', 'castle_eblk_b8', 'castle_eblk_g1']
HEAVY = ['start', 'kiwipete', 'pos4', 'pos4m', 'pos5', 'pos6', 'cmk', 'sb4', 'max218', 'killer']

def code_hash():
    h = hashlib.sha256()
    here = os.path.dirname(os.path.abspath(__file__))
    for f in [__file__, os.path.join(here, '..', 'tools', 'posgen.py'), os.path.join(here, '..', 'tools', 'vlib.py')]:
        h.update(open(f, 'rb').read())
    cdir = os.path.join(here, '..', 'corpus')
    for root, _, files in sorted(os.walk(cdir)):
        for f in sorted(files): h.update(open(os.path.join(root, f), 'rb').read())
    return h.hexdigest()[:12]

def file_hash(p):
    h = hashlib.sha256(); h.update(open(p, 'rb').read()); return h.hexdigest()[:16]

def mk_search(depth, stop, extra, bypass, trace, hist_keys, g):
    return {'depth': depth, 'stop': stop, 'extra': extra, 'bypass': bypass, 'trace': trace, 'hist': list(hist_keys), 'g': g}

def seq_line(searches):
    parts = []
    for s in searches:
        parts.append(f"{s['depth']} {s['stop']} {s['extra']} {s['bypass']} {s['trace']} {len(s['hist'])} " + ' '.join(s['hist']) + (' ' if s['hist'] else '') + s['g'])
    return f'searchseq {len(searches)} ' + ' '.join(parts)

def play_uci(oracle, g, ucis):
    out = [g]
    for u in ucis:
        f = posgen.SQ.index(u[:2]); t = posgen.SQ.index(u[2:4])
        succ = [x.split('=') for x in oracle.ask('succ ' + g).split()]
        cand = [gg for m, gg in succ if m.startswith(f'{f}:{t}:') and (len(u) == 4 or 'nbrq'.index(u[4]) >= 0)]
        if not cand: raise ValueError('illegal move in scenario: ' + u)
        g = cand[0].replace(',', ' '); out.append(g)
    return out

def shuffle_game(oracle, start, rng, nplies):
    """random game that prefers undoing the move made two plies ago (creates repetitions)"""
    g = start; game = [g]; moves = []
    for i in range(nplies):
        ans = oracle.ask('succ ' + g)
        if not ans.strip(): break
        succ = [x.split('=') for x in ans.split()]
        pick = None
        if len(moves) >= 2 and rng.random() < 0.6:
            f, t = moves[-2].split(':')[:2]
            back = [x for x in succ if x[0].split(':')[0] == t and x[0].split(':')[1] == f]
            if back: pick = back[0]
        if pick is None:
            quiet = [x for x in succ if x[0].endswith(':0000') and x[0].split(':')[2] not in ('0', '6')]
            pick = rng.choice(quiet if quiet and rng.random() < 0.8 else succ)
        moves.append(pick[0]); g = pick[1].replace(',', ' '); game.append(g)
    return game

def scenarios(ctx, oracle):
    rng = ctx.rng
    seeds = {n: g for n, g in posgen.seed_positions(oracle) if oracle.ask('wf ' + g) == '1'}   # legal positions only
    sc = []   # (kind, name, [searches])
    quick = ctx.tier == 'quick'
    # corpus first
    cdir = os.path.join(vlib.VERIF, 'corpus')
    for prop in sorted(os.listdir(cdir)) if os.path.isdir(cdir) else []:
        for f in sorted(os.listdir(os.path.join(cdir, prop))):
            if not f.endswith('.json'): continue
            try: items = json.load(open(os.path.join(cdir, prop, f)))
            except Exception: continue
            if not (isinstance(items, dict) and items.get('kind') == 'search-scenario'): continue
            start = oracle.ask('rekey ' + posgen.fen_to_fields(items['fen']))
            game = play_uci(oracle, start, items.get('moves', []))
            keys = [x.split()[20] for x in game]
            ss = []
            for s in items['searches']:
                at = s.get('at', len(game) - 1)
                ss.append(mk_search(s['depth'], s.get('stop', -1), s.get('extra', 0), s.get('bypass', 0), s.get('trace', 2), keys[:at + 1] if items.get('history', True) else [], game[at]))
            sc.append(('corpus', f'{prop}/{f}', ss))
    # cold
    for name in LIGHT + HEAVY:
        if name not in seeds: continue
        g = seeds[name]
        for d in ([1, 2, 3] if name in LIGHT else [1, 2] if quick else [1, 2, 3]):
            tr = 2 if (name in LIGHT or d == 1) else 1
            sc.append(('cold', f'{name}@d{d}', [mk_search(d, -1, 0, 0, tr, [], g)]))
    if not quick:
        for name in HEAVY[:6]:
            sc.append(('cold', f'{name}@d4', [mk_search(4, -1, 0, 0, 1, [], seeds[name])]))
    # games with shuffling, warm TT, histories
    ngames = 6 if quick else 60
    starts = ['start', 'kr_k', 'kq_k', 'pos3', 'endgame', 'castle_free', 'pins', 'sb4']
    for i in range(ngames):
        nm = starts[i % len(starts)]
        game = shuffle_game(oracle, seeds[nm], rng, rng.choice([8, 12, 16]))
        keys = [x.split()[20] for x in game]
        ss = []
        for at in range(max(1, len(game) - 4), len(game)):
            light = nm in ('kr_k', 'kq_k', 'pos3', 'endgame', 'pins')
            ss.append(mk_search(3 if light else 2, -1, 0, 0, 2, keys[:at + 1], game[at]))
        sc.append(('games', f'{nm}#{i}', ss))
    # deeper warm sequences compared by trace hash only
    for i in range(2 if quick else 20):
        nm = starts[i % len(starts)]
        game = shuffle_game(oracle, seeds[nm], rng, 10)
        keys = [x.split()[20] for x in game]
        ss = [mk_search(4 if nm != 'start' else 3, -1, 0, 0, 1, keys[:at + 1], game[at]) for at in range(len(game) - 3, len(game))]
        sc.append(('games-deep', f'{nm}#{i}', ss))
    # stop sweeps: first a probe run to learn the number of polls, expanded later
    for name, d in ([('pos3', 2), ('mate_in_2', 2), ('ep_hpin', 3), ('kr_k', 2)] if quick else [('pos3', 2), ('pos3', 3), ('mate_in_2', 3), ('ep_hpin', 3), ('kr_k', 3), ('start', 2), ('castle_free', 2), ('promo_all', 2)]):
        sc.append(('stops-probe', f'{name}@d{d}', [mk_search(d, -1, 1, 0, 2, [], seeds[name])]))
    # fallback: nothing completes (stop seen by the very first poll) or the root goes straight to quiescence (half-move clock 100):
    # the answer then comes from search()'s legal-move fallback -- on every seed and on playout positions (pins, checks, double checks)
    fpos = [(n, g) for n, g in seeds.items()]
    pl = []; plays = []
    for i in range(6 if quick else 60):
        one = [g for g, k in posgen.playout(oracle, seeds[rng.choice(['start', 'kiwipete', 'pos4', 'pos5', 'pins', 'double_check2', 'castle_free'])], rng, 30, bias=6.0)]
        pl += one; plays.append(one)
    rng.shuffle(pl)
    fpos += [(f'playout{i}', g) for i, g in enumerate(pl[:120 if quick else 3000])]
    for n, g in fpos:
        sc.append(('fallback', f'{n}@stop0', [mk_search(2, 0, 0, 0, 1, [], g)]))
        if rng.random() < 0.4:
            t = g.split(); t[18] = '100'
            sc.append(('fallback', f'{n}@hmc100', [mk_search(2, -1, 0, 0, 1, [], ' '.join(t))]))
    # shallow: many playout positions searched twice in a row (cold then warm TT) at depth 3/2 -- volume for the output monitors
    # (aspiration-window edge cases such as score == beta need many iterations to occur)
    for i, g in enumerate(pl[:60 if quick else 1500]):
        sc.append(('shallow', f'playout{i}', [mk_search(3, -1, 0, 0, 1, [], g), mk_search(2, -1, 0, 0, 1, [], g)]))
    # ... and consecutive positions of one playout searched with the table kept (a move two plies down, then the position before it)
    for i, one in enumerate(plays):
        for w in range(0, len(one) - 3, 3 if quick else 1):
            sc.append(('shallow', f'window{i}.{w}', [mk_search(3, -1, 0, 0, 1, [], one[w + 2]), mk_search(3, -1, 0, 0, 1, [], one[w]), mk_search(3, -1, 0, 0, 1, [], one[w + 1])]))
    # cadence: searches of well over 16384 nodes without hook polls -- the engine's own polling cadence (C09: maxgap in the END line)
    for name, d in ([('kiwipete', 4)] if quick else [('kiwipete', 4), ('pos4', 4), ('pos5', 4), ('start', 5)]):
        if name in seeds: sc.append(('cadence', f'{name}@d{d}', [mk_search(d, -1, 0, 0, 1, [], seeds[name])]))
    # ... and large tactical searches on the engine alone (quiescence-heavy trees; hundreds of thousands of nodes)
    for name, d in ([('kiwipete', 6), ('pos4', 5)] if quick else [('kiwipete', 7), ('pos4', 6), ('pos5', 6), ('start', 7), ('pos3', 8)]):
        if name in seeds: sc.append(('cadence!', f'{name}@d{d}', [mk_search(d, -1, 0, 0, 0, [], seeds[name])]))
    # deep: bare kings searched to the ply limit and beyond (C06: MAX_PLY guards)
    for fen in ['8/8/8/8/8/k7/8/K7 w - - 0 1'] + ([] if quick else ['8/8/4k3/8/8/3K4/8/8 b - - 0 1']):
        gk = oracle.ask('rekey ' + posgen.fen_to_fields(fen))
        sc.append(('deep', fen.split()[0] + '@d66', [mk_search(66, -1, 0, 0, 1, [], gk)]))
    # sessions: many consecutive positions of one playout searched with the table kept (warm-table effects on PVs and scores)
    for i, one in enumerate(plays[:(2 if quick else 20)]):
        ss = [mk_search(3 + (k % 2), -1, 0, 0, 1, [], one[k]) for k in range(0, min(len(one), 24))]
        sc.append(('session', f'playout{i}', ss))
    # ... and long engine-only sessions (the output monitors need no model run): whole playouts searched move by move at depth 3-5
    for i in range(16 if quick else 200):
        one = [g for g, k in posgen.playout(oracle, seeds[rng.choice(['start', 'kiwipete', 'pos4', 'pos5', 'castle_free', 'pos3'])], rng, 40, bias=4.0)]
        ss = [mk_search(3 + (k % 3), -1, 0, 0, 0, [], one[k]) for k in range(len(one))]
        sc.append(('session!', f'long{i}', ss))
    # ... and shuffled games (men going back and forth, so that search lines step back into the game history) searched on their last positions
    # with the full history, engine only: draws by repetition inside principal variations (C12 PV legality, C07 verdicts, C03)
    for i in range(30 if quick else 600):
        nm = starts[i % len(starts)]
        game = shuffle_game(oracle, seeds[nm], rng, rng.choice([6, 8, 10, 12]))
        keys = [x.split()[20] for x in game]
        # (castle_free at depth 4: a rook leaves and comes back inside the line, so the placement repeats with fewer castling rights)
        d = 4 if nm in ('kr_k', 'kq_k', 'pos3', 'endgame', 'pins', 'castle_free') else 3
        ss = [mk_search(d, -1, 0, 0, 0, keys[:at + 1], game[at]) for at in range(max(1, len(game) - 3), len(game))]
        sc.append(('shuffle!', f'{nm}#{i}', ss))
    # ... and games in which only the knights shuffle, so that both sides keep their castling rights, searched on their last positions with
    # the full history and a full trace, engine only: a rook or king leaves and comes back inside the line while a knight undoes its last move --
    # the placement of an earlier game position with fewer rights, which is not a repetition (C07 false hits, C06 node keys)
    for i in range(3 if quick else 60):
        nm = ['castle_shuffle', 'castle_shuffle_b', 'kiwipete'][i % 3]
        if nm not in seeds: continue
        g = seeds[nm]; game = [g]
        for k in range(rng.choice([2, 3, 4, 5])):
            succ = [x.split('=') for x in oracle.ask('succ ' + g).split()]
            kn = [x for x in succ if x[0].split(':')[2] in ('1', '7') and x[0].endswith(':0000')]
            if not kn: break
            g = rng.choice(kn)[1].replace(',', ' '); game.append(g)
        keys = [x.split()[20] for x in game]
        d = 2 if nm == 'kiwipete' else 3 + (i // 3) % 2
        sc.append(('shuffle!', f'{nm}#{i}@rights', [mk_search(d, -1, 0, 0, 2, keys, game[-1])]))
    # bypass
    for name in LIGHT + HEAVY:
        if name not in seeds: continue
        for d in (1, 2):
            sc.append(('bypass', f'{name}@d{d}', [mk_search(d, -1, 0, 1, 1, [], seeds[name])]))
    return sc, seeds

def sq_name(i):
    i = int(i); return 'abcdefgh'[i % 8] + str(8 - i // 8)

def uci_games(ctx, oracle):
    """position texts (base FEN + moves) in which kings, rooks and knights go out and come back while castling rights are held;
    the engine's own `position` command turns each into (position, history keys) -- the state a search after that command starts from"""
    rng = ctx.rng; quick = ctx.tier == 'quick'; out = []
    names = ['castle_free', 'castle_free_b', 'castle_shuffle', 'castle_shuffle_b', 'castle_rights_subset', 'castle_knight'] + ([] if quick else ['kiwipete', 'pos5'])
    for i in range(24 if quick else 400):
        nm = names[i % len(names)]
        fen = posgen.SEED_FENS.get(nm)
        if fen is None: continue
        g = oracle.ask('rekey ' + posgen.fen_to_fields(fen)); moves = []; raw = []
        for k in range(rng.choice([3, 3, 4, 5, 7])):
            ans = oracle.ask('succ ' + g)
            if not ans.strip(): break
            succ = [x.split('=') for x in ans.split()]
            succ = [x for x in succ if x[0].split(':')[3] == '12']          # no promotions
            if not succ: break
            pick = None
            if len(raw) >= 2 and rng.random() < 0.7:
                f, t = raw[-2].split(':')[:2]
                back = [x for x in succ if x[0].split(':')[0] == t and x[0].split(':')[1] == f]
                if back: pick = back[0]
            if pick is None:
                men = [x for x in succ if x[0].endswith(':0000') and x[0].split(':')[2] in ('1', '3', '5', '7', '9', '11')]
                pick = rng.choice(men if men and rng.random() < 0.85 else succ)
            raw.append(pick[0]); f, t = pick[0].split(':')[:2]; moves.append(sq_name(f) + sq_name(t)); g = pick[1].replace(',', ' ')
        out.append((nm, f'fen {fen} moves ' + ' '.join(moves)))
    return out

def uci_scenarios(ctx, games):
    """searches that start from what the engine's `position` command built (its own position record and its own history keys)"""
    ans = ctx.engine_batch(['position ' + t for nm, t in games], shards=1)
    sc = []
    for i, ((nm, t), a) in enumerate(zip(games, ans)):
        if ' | ' not in a: continue
        gf, keys = a.split(' | ', 1)
        for d in ((1,) if nm in ('kiwipete', 'pos5') else (1, 2, 3)):
            sc.append(('uci-pos!', f'{nm}#{i}@d{d} [position {t}]', [mk_search(d, -1, 0, 0, 2, keys.split(), gf.strip())]))
    return sc

def expand_stops(ctx, sc, eng_answers):
    """from each stops-probe answer build one search per poll index"""
    out = []
    for (kind, name, ss), ans in zip(sc, eng_answers):
        if kind != 'stops-probe': continue
        npolls = len(re.findall(r'POLL \d+ ', ans))
        stride = 1 if (ctx.tier == 'thorough' or npolls <= 120) else max(1, npolls // 120)
        s0 = ss[0]
        for k in list(range(0, npolls, stride)) + [npolls]:
            out.append(('stops', f'{name}@k{k}', [mk_search(s0['depth'], k, 1, 0, 2, [], s0['g'])]))
    return out

def collect(ctx):
    key = f'{file_hash(ctx.engine)}-{file_hash(ctx.model) if ctx.model_ok else "nomodel"}-{ctx.seed}-{ctx.tier}-{code_hash()}'
    cdir = os.path.join(vlib.BUILD, 'cache'); os.makedirs(cdir, exist_ok=True)
    cfile = os.path.join(cdir, f'searchcore-{key}.pkl')
    with vlib.Lock('searchcore'):
        if os.path.exists(cfile):
            try: return pickle.load(open(cfile, 'rb'))
            except Exception: pass
        if not ctx.model_ok: return None
        oracle = posgen.Oracle(ctx.model)
        try:
            sc, seeds = scenarios(ctx, oracle)
            games = uci_games(ctx, oracle)
        finally:
            oracle.close()
        t0 = time.time()
        sc += uci_scenarios(ctx, games)
        eng = ctx.engine_batch([seq_line(ss) for k, n, ss in sc], shards=8)
        more = expand_stops(ctx, sc, eng)
        eng += ctx.engine_batch([seq_line(ss) for k, n, ss in more], shards=8)
        sc += more
        t1 = time.time()
        # engine-only scenarios (kind ends with '!'): judged by the property checks on the engine's answer, not run through the model
        midx = [i for i, (k, n, ss) in enumerate(sc) if not k.endswith('!')]
        mans = ctx.model_batch([seq_line(sc[i][2]) for i in midx])
        mod = [None] * len(sc)
        for i, a in zip(midx, mans): mod[i] = a
        t2 = time.time()
        # judge every single search of every scenario
        jl = []; jmap = []
        for si, ((k, n, ss), e) in enumerate(zip(sc, eng)):
            parts = e.split(' ## ')
            for j, s in enumerate(ss):
                a = parts[j] if j < len(parts) else '<missing>'
                if a.rstrip().endswith('||'): a = a.rstrip() + ' NEV=0'      # untraced search: empty trace part
                jl.append(f"judgesearch {len(s['hist'])} " + ' '.join(s['hist']) + (' ' if s['hist'] else '') + s['g'] + ' @ ' + a)
                jmap.append((si, j))
        jud = ctx.model_batch(jl)
        t3 = time.time()
        res = {'sc': sc, 'eng': eng, 'mod': mod, 'jud': jud, 'jmap': jmap,
               'times': {'engine_s': round(t1 - t0, 2), 'model_s': round(t2 - t1, 2), 'judge_s': round(t3 - t2, 2)}}
        for f in os.listdir(cdir):
            if f.startswith('searchcore-') and f != os.path.basename(cfile):
                try: os.remove(os.path.join(cdir, f))
                except OSError: pass
        pickle.dump(res, open(cfile, 'wb'))
        return res

INFO_RE = re.compile(r'^info score (cp -?\d+|mate -?\d+) depth (\d+) nodes (\d+) time T pv((?: [a-h][1-8][a-h][1-8][nbrq]?)*) ?$')

def python_checks(s, answer):
    """C12 format/monotonicity, C17 bookkeeping, C03 exactly-one-bestmove: plain text checks on one search answer"""
    tags = []
    parts = answer.split(' || ')
    if len(parts) < 3: return ['answer-malformed']
    native, endl = parts[0], parts[1]
    lines = [l for l in native.split(' ;; ') if l.strip()]
    last_d, last_n = 0, -1
    for l in lines:
        if l.startswith('info'):
            m = INFO_RE.match(l.rstrip() + ' ' if False else l.rstrip())
            if not m: tags.append('C12:format'); continue
            d, n = int(m.group(2)), int(m.group(3))
            if d <= last_d: tags.append('C12:depth-not-increasing')
            if n < last_n: tags.append('C12:nodes-decreasing')
            last_d, last_n = d, n
    if sum(1 for l in lines if l.startswith('bestmove')) != 1 or not lines or not lines[-1].startswith('bestmove'): tags.append('C03:bestmove-count')
    kv = dict(x.split('=', 1) for x in endl.split() if '=' in x)
    if 'PANIC' in endl: tags.append('C17:panic')
    if kv.get('ply') != '0': tags.append('C17:ply-not-restored')
    if kv.get('rep') != str(len(s['hist'])) or kv.get('REP_SAME') != '1': tags.append('C17:history-changed')
    if kv.get('GAME_SAME') != '1': tags.append('C17:position-changed')
    try:
        if int(kv.get('maxgap', '0')) > poll_interval(): tags.append('C09:cadence')      # a stretch of more than one polling interval (16384 nodes) without a poll
    except ValueError: pass
    return tags

_POLL = []
def poll_interval():
    """INPUT_POLL_INTERVAL + 1 as the source has it (coq/Gen/Consts.v is regenerated from the source on every run); the property allows
    'a few tens of thousands' of nodes, so a larger interval than 65536 counts as a violation whatever the source says."""
    if not _POLL:
        v = 16384
        try:
            m = re.search(r'Definition INPUT_POLL_INTERVAL : N := (0x[0-9a-fA-F]+|\d+)%N', open(os.path.join(vlib.COQ, 'Gen', 'Consts.v')).read())
            if m: v = int(m.group(1), 0) + 1
        except Exception: pass
        _POLL.append(min(v, 65536))
    return _POLL[0]

def run_property(ctx, props_file, tags, what, tie=True, extra_rule=''):
    vlib.standard_prepare(ctx, props_file)
    if ctx.engine is None: return None
    res = collect(ctx)
    if res is None: return None
    sc, eng, mod, jud, jmap = res['sc'], res['eng'], res['mod'], res['jud'], res['jmap']
    nsearch = len(jmap)
    ctx.cov['evaluations'] = nsearch
    kinds = {}
    for k, n, ss in sc: kinds[k] = kinds.get(k, 0) + len(ss)
    ctx.cov['searches_by_scenario_kind'] = kinds
    ctx.cov['stream_times'] = res['times']
    ctx.cov['rule'] = ('searchseq scenarios: cold searches of the seed families at depth 1-3(4); shuffled games searched on consecutive positions with a warm TT and the full game history; '
                       'stop sweeps with a poll at every node and the stop injected at every poll index; TT-bypassed depth 1-2. one evaluation = one search; '
                       'non-trivial = the search visited more than 10 nodes; distinct = distinct (position, history, depth, stop, flags)' + extra_rule)
    nontriv = set(); events = 0; unjudged = []
    found = {}
    for (si, j), v in zip(jmap, jud):
        k, n, ss = sc[si]; s = ss[j]
        parts = eng[si].split(' ## ')
        a = parts[j] if j < len(parts) else '<missing>'
        m = re.search(r'nodes=(\d+)', a)
        if m and int(m.group(1)) > 10: nontriv.add((s['g'], tuple(s['hist']), s['depth'], s['stop'], s['extra'], s['bypass']))
        events += a.count(' ;; ')
        alltags = ([] if v == 'OK' else v.split()[1:]) + python_checks(s, a)
        if any(t in ('answer-malformed', 'trace-unparsable') for t in alltags) and 'PANIC' not in a:
            unjudged.append((k, n, j, a[:300]))
        for tg in alltags:
            base = tg.split('@')[0]
            if any(base.startswith(t) for t in tags):
                found.setdefault(base, []).append((k, n, j, s, a, tg))
    ctx.cov['distinct_nontrivial'] = len(nontriv)
    ctx.cov['trace_events_judged'] = events
    # work after the stop (C09: "the search ends after a bounded amount of further work"): nodes counted between the poll that first reported the stop
    # and the end of the search, over the stop-injection family (a poll at every node, the stop injected at every poll index)
    after = []
    for (k, n, ss), e in zip(sc, eng):
        if k != 'stops': continue
        m1 = re.search(r'POLL \d+ n=(\d+) stop=1', e); m2 = re.search(r'END [^|]*?nodes=(\d+)', e)
        if m1 and m2: after.append(int(m2.group(1)) - int(m1.group(1)))
    if after:
        after.sort()
        ctx.cov['nodes_entered_after_the_stop_was_seen'] = {'searches': len(after), 'max': after[-1], 'median': after[len(after) // 2], 'proved_bound_on_main_search_nodes': 8192}
    ctx.cov['searches_not_judged'] = len(unjudged)
    if unjudged:
        ctx.broken.append(vlib.Broken('check machinery error: the judge could not read some engine answers', json.dumps(unjudged[:5])))
    for base, items in found.items():
        items.sort(key=lambda it: len(it[4]))
        k, n, j, s, a, tg = items[0]
        ctx.violation(f'{ctx.pid}:{base.split(":", 1)[1] if ":" in base else base}', what,
                      {'scenario': f'{k}:{n}#{j}', 'fen': posgen.fields_to_fen(s['g']), 'depth': s['depth'], 'stop_at_poll': s['stop'], 'extra_poll_every': s['extra'],
                       'tt_bypass': s['bypass'], 'history_keys': s['hist'], 'monitor_tag': tg, 'engine_answer': a[:6000],
                       'searches_failing_in_this_run': len(items), 'replay_request': seq_line([dict(s, trace=2)])})
    for (k, n, ss), e in list(zip(sc, eng))[::max(1, len(sc) // 3)][:3]:
        ctx.sample({'scenario': f'{k}:{n}', 'request': seq_line(ss)[:300], 'engine_answer_prefix': e[:300]})
    if tie:
        dis = [(k, n, ss, e, m) for (k, n, ss), e, m in zip(sc, eng, mod) if m is not None and e != m]
        ctx.cov['model_vs_engine_disagreements'] = len(dis)
        ctx.cov['traces_validated_against_impl'] = sum(1 for x in mod if x is not None) - len(dis)
        if dis and not found:
            k, n, ss, e, m = min(dis, key=lambda x: len(x[3]))
            # first differing chunk
            ee, mm = e.split(' ;; '), m.split(' ;; ')
            idx = next((i for i, (x, y) in enumerate(zip(ee, mm)) if x != y), min(len(ee), len(mm)))
            ctx.broken.append(vlib.Broken('correspondence stream search: engine and model differ (outputs or event trace)',
                json.dumps({'scenario': f'{k}:{n}', 'request': seq_line(ss)[:3000], 'first_difference_at_chunk': idx,
                            'engine': ' ;; '.join(ee[max(0, idx - 1):idx + 2])[:1500], 'model': ' ;; '.join(mm[max(0, idx - 1):idx + 2])[:1500], 'scenarios_differing': len(dis)})))
    return res

def replay_search(ctx, path, props_file):
    j = json.load(open(path))
    vlib.standard_prepare(ctx, props_file)
    l = j['replay']['replay_request']
    e = ctx.engine_batch([l], shards=1)[0]
    print('request:', l[:500]); print('engine:', e[:3000])
    hk = j['replay'].get('history_keys', [])
    g = ' '.join(l.split()[-21:])
    v = ctx.model_batch([f"judgesearch {len(hk)} " + ' '.join(hk) + (' ' if hk else '') + g + ' @ ' + e], shards=1)[0]
    print('monitor:', v)
    return 0 if v == 'OK' else 1
