(* glue between text and the extracted Coq number types (positive / N / Z stay Coq datatypes) *)
open Model
type cstring = Model.string
type string = Stdlib.String.t

let rec pos_of_int (i : int) : positive =
  if i <= 1 then XH else if i land 1 = 1 then XI (pos_of_int (i lsr 1)) else XO (pos_of_int (i lsr 1))
let n_of_int (i : int) : n = if i <= 0 then N0 else Npos (pos_of_int i)
let z_of_int (i : int) : z = if i = 0 then Z0 else if i > 0 then Zpos (pos_of_int i) else Zneg (pos_of_int (- i))

let rec int_of_pos (p : positive) : int = match p with XH -> 1 | XO q -> 2 * int_of_pos q | XI q -> 2 * int_of_pos q + 1
let int_of_n (x : n) : int = match x with N0 -> 0 | Npos p -> int_of_pos p
let int_of_z (x : z) : int = match x with Z0 -> 0 | Zpos p -> int_of_pos p | Zneg p -> - (int_of_pos p)

(* 64-bit values travel as hex strings; build the positive from the bits (most significant first) *)
let n_of_hex (s : string) : n =
  let acc = ref N0 in
  String.iter (fun c ->
    let d = match c with '0'..'9' -> Char.code c - 48 | 'a'..'f' -> Char.code c - 87 | 'A'..'F' -> Char.code c - 55
                         | _ -> failwith ("bad hex " ^ s) in
    for b = 3 downto 0 do
      let bit = (d lsr b) land 1 = 1 in
      acc := (match !acc with
              | N0 -> if bit then Npos XH else N0
              | Npos p -> Npos (if bit then XI p else XO p))
    done) s;
  !acc

let hex_of_n (x : n) : string =
  match x with
  | N0 -> "0"
  | Npos p ->
    (* collect bits least significant first *)
    let rec bits p acc = match p with XH -> true :: acc | XO q -> bits q (false :: acc) | XI q -> bits q (true :: acc) in
    let msb_first = bits p [] in
    let n = List.length msb_first in
    let pad = (4 - n mod 4) mod 4 in
    let l = List.init pad (fun _ -> false) @ msb_first in
    let buf = Buffer.create 16 in
    let rec go = function
      | a :: b :: c :: d :: r ->
        let v = (if a then 8 else 0) + (if b then 4 else 0) + (if c then 2 else 0) + (if d then 1 else 0) in
        Buffer.add_char buf "0123456789abcdef".[v]; go r
      | [] -> ()
      | _ -> assert false in
    go l; Buffer.contents buf

let z_of_string (s : string) : z = z_of_int (int_of_string s)
let string_of_z (x : z) : string = string_of_int (int_of_z x)
let n_of_string (s : string) : n = n_of_int (int_of_string s)
let string_of_n (x : n) : string = string_of_int (int_of_n x)

let rec nat_of_int (i : int) : nat = if i <= 0 then O else S (nat_of_int (i - 1))
let rec int_of_nat (n : nat) : int = match n with O -> 0 | S k -> 1 + int_of_nat k

(* Coq strings (inductive over 8-bit ascii records) to OCaml strings *)
let char_of_ascii (a : ascii) : char =
  match a with Ascii (b0, b1, b2, b3, b4, b5, b6, b7) ->
    let v b k = if b then 1 lsl k else 0 in
    Char.chr (v b0 0 + v b1 1 + v b2 2 + v b3 3 + v b4 4 + v b5 5 + v b6 6 + v b7 7)
let string_of_coq (s : cstring) : string =
  let buf = Buffer.create 64 in
  let rec go = function EmptyString -> () | String (c, r) -> Buffer.add_char buf (char_of_ascii c); go r in
  go s; Buffer.contents buf

let fnv (s : string) : string =
  let h = ref 0xcbf29ce484222325L in
  String.iter (fun c -> h := Int64.logxor !h (Int64.of_int (Char.code c)); h := Int64.mul !h 0x100000001b3L) s;
  Printf.sprintf "%Lx" !h

let ascii_of_char (c : char) : ascii =
  let n = Char.code c in
  Ascii (n land 1 <> 0, n land 2 <> 0, n land 4 <> 0, n land 8 <> 0, n land 16 <> 0, n land 32 <> 0, n land 64 <> 0, n land 128 <> 0)
let coq_of_string (s : string) : cstring =
  let r = ref EmptyString in
  for i = String.length s - 1 downto 0 do r := String (ascii_of_char s.[i], !r) done; !r
