(* glue between text and the extracted Coq number types (positive / N / Z stay Coq datatypes) *)
open Model

let rec pos_of_int (i : int) : positive =
  if i <= 1 then XH else if i land 1 = 1 then XI (pos_of_int (i lsr 1)) else XO (pos_of_int (i lsr 1))
let n_of_int (i : int) : n = if i <= 0 then N0 else Npos (pos_of_int i)
let z_of_int (i : int) : z = if i = 0 then Z0 else if i > 0 then Zpos (pos_of_int i) else Zneg (pos_of_int (- i))

let rec int_of_pos (p : positive) : int = match p with XH -> 1 | XO q -> 2 * int_of_pos q | XI q -> 2 * int_of_pos q + 1
let int_of_n (x : n) : int = match x with N0 -> 0 | Npos p -> int_of_pos p
let int_of_z (x : z) : int = match x with Z0 -> 0 | Zpos p -> int_of_pos p | Zneg p -> - (int_of_pos p)

(* 64-bit values travel as hex strings; build the positive from the bits (most significant first) *)
let n_of_hex (s : string) : n =
  let acc = ref N0 in
  String.iter (fun c ->
    let d = match c with '0'..'9' -> Char.code c - 48 | 'a'..'f' -> Char.code c - 87 | 'A'..'F' -> Char.code c - 55
                         | _ -> failwith ("bad hex " ^ s) in
    for b = 3 downto 0 do
      let bit = (d lsr b) land 1 = 1 in
      acc := (match !acc with
              | N0 -> if bit then Npos XH else N0
              | Npos p -> Npos (if bit then XI p else XO p))
    done) s;
  !acc

let hex_of_n (x : n) : string =
  match x with
  | N0 -> "0"
  | Npos p ->
    (* collect bits least significant first *)
    let rec bits p acc = match p with XH -> true :: acc | XO q -> bits q (false :: acc) | XI q -> bits q (true :: acc) in
    let msb_first = bits p [] in
    let n = List.length msb_first in
    let pad = (4 - n mod 4) mod 4 in
    let l = List.init pad (fun _ -> false) @ msb_first in
    let buf = Buffer.create 16 in
    let rec go = function
      | a :: b :: c :: d :: r ->
        let v = (if a then 8 else 0) + (if b then 4 else 0) + (if c then 2 else 0) + (if d then 1 else 0) in
        Buffer.add_char buf "0123456789abcdef".[v]; go r
      | [] -> ()
      | _ -> assert false in
    go l; Buffer.contents buf

let z_of_string (s : string) : z = z_of_int (int_of_string s)
let string_of_z (x : z) : string = string_of_int (int_of_z x)
let n_of_string (s : string) : n = n_of_int (int_of_string s)
let string_of_n (x : n) : string = string_of_int (int_of_n x)
