(* Runs the extracted Coq model on the same request lines the in-crate Rust driver answers. *)
open Model
type cstring = Model.string
type string = Stdlib.String.t
open Conv

let flag_of = function "A" -> FAlpha | "B" -> FBeta | _ -> FExact

let rec parse_tt = function
  | "R" :: h :: s :: d :: f :: p :: r -> RRec (n_of_hex h, z_of_string s, n_of_string d, flag_of f, z_of_string p) :: parse_tt r
  | "P" :: h :: d :: a :: b :: p :: r -> RProbe (n_of_hex h, n_of_string d, z_of_string a, z_of_string b, z_of_string p) :: parse_tt r
  | "C" :: r -> RClr :: parse_tt r
  | [] -> []
  | x :: _ -> failwith ("BADOP " ^ x)

(* ttmon <ops> | <answers>: the Coq monitor (Spec.TTSpec.monitor) applied to the engine's answers *)
let do_ttmon (t : string list) : string =
  let rec split acc = function "|" :: r -> (List.rev acc, r) | x :: r -> split (x :: acc) r | [] -> (List.rev acc, []) in
  let (ops, ans) = split [] t in
  let answers = List.map (function "U" -> None | s -> Some (z_of_string s)) ans in
  if monitor [] (parse_tt ops) answers then "OK" else "REJECT"

let do_tt (t : string list) : string =
  let reqs = parse_tt t in
  let res = run_reqs (table []) reqs in
  String.concat " " (List.map (function None -> "U" | Some s -> string_of_z s) res)

(* go <side> <kw> <value> ... *)
let do_go (t : string list) : string =
  match t with
  | side :: rest ->
    let rec parse = function
      | "infinite" :: r -> (Kinfinite, z_of_int 0) :: parse r
      | k :: v :: r ->
        let kw = (match k with "binc" -> Kbinc | "winc" -> Kwinc | "btime" -> Kbtime | "wtime" -> Kwtime
                             | "movestogo" -> Kmovestogo | "movetime" -> Kmovetime | "depth" -> Kdepth
                             | _ -> failwith ("BADKW " ^ k)) in
        (kw, z_of_string v) :: parse r
      | [] -> []
      | [k] -> failwith ("BADKW " ^ k) in
    (match parse_go (side = "1") (parse rest) with
     | None -> "NOSEARCH"
     | Some (d, mt) -> string_of_z d ^ " " ^ string_of_z mt)
  | [] -> "BADREQ"

(* att <sq> <occ>: the specification's attack sets (Spec.Rays), which C15 proves equal to the table model *)
let do_att (t : string list) : string =
  match t with
  | [sq; occ] ->
    let s = n_of_string sq and o = n_of_hex occ in
    let r = slide rook_dirs s o and b = slide bishop_dirs s o in
    String.concat " " (List.map hex_of_n
      [r; b; N.coq_lor r b; leaper knight_offs s; leaper king_offs s; leaper wpawn_offs s; leaper bpawn_offs s])
  | _ -> "BADREQ"

(* ---- chess core ---- *)
let parse_game (t : string array) (o : int) : game =
  let bb = List.init 12 (fun i -> n_of_hex t.(o + i)) in
  { bbs = bb; wocc = n_of_hex t.(o + 12); bocc = n_of_hex t.(o + 13); aocc = n_of_hex t.(o + 14);
    white = (t.(o + 15) = "1"); ep = n_of_string t.(o + 16); castling = n_of_string t.(o + 17);
    half = n_of_string t.(o + 18); full = n_of_string t.(o + 19); hash = n_of_hex t.(o + 20) }

let game_fields ?(sep = " ") (g : game) : string =
  String.concat sep (List.map hex_of_n g.bbs @ [hex_of_n g.wocc; hex_of_n g.bocc; hex_of_n g.aocc;
    (if g.white then "1" else "0"); string_of_n g.ep; string_of_n g.castling; string_of_n g.half; string_of_n g.full; hex_of_n g.hash])

let b2s b = if b then "1" else "0"
let move_fields (m : move) : string =
  Printf.sprintf "%d:%d:%d:%d:%s%s%s%s" (int_of_n m.mfrom) (int_of_n m.mto) (int_of_n m.mpiece) (int_of_n m.mpromo)
    (b2s m.mcap) (b2s m.mdp) (b2s m.mep) (b2s m.mcastle)

let do_pos (t : string list) : string =
  let a = Array.of_list t in
  let g = parse_game a 0 in
  let all = generate_moves g true and q = generate_moves g false in
  let buf = Buffer.create 4096 in
  Buffer.add_string buf "A";
  List.iter (fun m -> Buffer.add_char buf ' '; Buffer.add_string buf (move_fields m)) all;
  Buffer.add_string buf " | Q";
  List.iter (fun m -> Buffer.add_char buf ' '; Buffer.add_string buf (move_fields m)) q;
  Buffer.add_string buf " | L ";
  List.iter (fun m -> Buffer.add_string buf (b2s (is_legal g m))) all;
  Buffer.add_string buf " | LQ ";
  List.iter (fun m -> Buffer.add_string buf (b2s (is_legal g m))) q;
  Buffer.add_string buf " | M";
  let mk = Buffer.create 1024 in
  List.iter (fun m ->
    match make_search_move g m with
    | Illegal -> Buffer.add_string buf " I"; Buffer.add_string mk " -"
    | MPanic -> Buffer.add_string buf " PANIC"; Buffer.add_string mk " -"
    | Made g' -> Buffer.add_char buf ' '; Buffer.add_string buf (game_fields ~sep:"," g');
                 Buffer.add_char mk ' '; Buffer.add_string mk (hex_of_n (make_zobrist_hash g'))) all;
  Buffer.add_string buf " | MK"; Buffer.add_buffer buf mk;
  Buffer.add_string buf (Printf.sprintf " | E %s | K %s | C %s" (string_of_z (evaluate g)) (hex_of_n (make_zobrist_hash g)) (b2s (is_in_check g g.white)));
  Buffer.add_string buf (Printf.sprintf " | P %s %s" (string_of_n (perft1 g)) (string_of_n (perft2 g)));
  Buffer.contents buf

(* succ <game>: legal successors, for the position generator: "<move>=<fields,>" ... *)
let do_succ (t : string list) : string =
  let g = parse_game (Array.of_list t) 0 in
  String.concat " " (List.filter_map (fun m ->
    match make_search_move g m with Made g' -> Some (move_fields m ^ "=" ^ game_fields ~sep:"," g') | _ -> None) (generate_moves g true))

(* rekey <game>: the same game with its key recomputed from scratch *)
let do_rekey (t : string list) : string =
  let g = parse_game (Array.of_list t) 0 in
  game_fields { g with hash = make_zobrist_hash g }

(* judge <game> @ <an implementation's answer to pos>: the Coq monitors (Model/Abs.v) applied to that answer *)
let parse_move (s : string) : move =
  match String.split_on_char ':' s with
  | [f; t; p; pr; fl] ->
    { mfrom = n_of_string f; mto = n_of_string t; mpiece = n_of_string p; mpromo = n_of_string pr;
      mcap = (fl.[0] = '1'); mdp = (fl.[1] = '1'); mep = (fl.[2] = '1'); mcastle = (fl.[3] = '1') }
  | _ -> failwith ("bad move " ^ s)

let split_on (sep : string) (l : string list) : string list * string list =
  let rec go acc = function x :: r when x = sep -> (List.rev acc, r) | x :: r -> go (x :: acc) r | [] -> (List.rev acc, []) in
  go [] l

let do_judge (t : string list) : string =
  let (gt, ans) = split_on "@" t in
  let g = parse_game (Array.of_list gt) 0 in
  (* sections separated by "|" *)
  let rec sections acc cur = function
    | "|" :: r -> sections (List.rev cur :: acc) [] r
    | x :: r -> sections acc (x :: cur) r
    | [] -> List.rev (List.rev cur :: acc) in
  let secs = sections [] [] ans in
  let find tag = match List.find_opt (function x :: _ -> x = tag | [] -> false) secs with Some (_ :: r) -> r | _ -> [] in
  let all = List.map parse_move (find "A") and q = List.map parse_move (find "Q") in
  let bits s = match s with [b] -> List.init (String.length b) (fun i -> b.[i] = '1') | _ -> [] in
  let l = bits (find "L") and lq = bits (find "LQ") in
  let m = find "M" and mk = find "MK" in
  let bad = ref [] in
  let add s = bad := s :: !bad in
  if List.length l <> List.length all || List.length lq <> List.length q || List.length m <> List.length all then add "malformed"
  else begin
    let by_filter = List.filter_map (fun (mv, b) -> if b then Some mv else None) (List.combine all l) in
    let made = List.combine all m in
    let by_make = List.filter_map (fun (mv, r) -> if r <> "I" then Some mv else None) made in
    List.iter (fun mv -> if not (move_fits g mv) then add ("C04:move-does-not-fit:" ^ move_fields mv)) (all @ q);
    List.iter (fun mv -> if not (nkc_b g mv) then add ("C02:king-capture:" ^ move_fields mv)) (all @ q);
    if by_filter <> by_make then add "C01:legality-paths-differ";
    if not (mon_legal_set g by_filter) then add "C01:legal-set(filter)";
    if not (mon_legal_set g by_make) then add "C01:legal-set(make)";
    let by_filter_q = List.filter_map (fun (mv, b) -> if b then Some mv else None) (List.combine q lq) in
    if not (mon_capture_set g by_filter_q) then add "C01:capture-set";
    List.iteri (fun i (mv, r) ->
      if r <> "I" then begin
        let f = Array.of_list (String.split_on_char ',' r) in
        if Array.length f <> 21 then add ("C02:successor-malformed:" ^ move_fields mv)
        else begin
          let g' = parse_game f 0 in
          if not (mon_make g mv g') then add ("C02:successor:" ^ move_fields mv);
          (match List.nth_opt mk i with
           | Some k when k = hex_of_n g'.hash -> ()
           | _ -> add ("C04:incremental-key:" ^ move_fields mv))
        end
      end) made;
    (match find "C" with [c] -> if (c = "1") <> spec_in_check g then add "C01:in-check" | _ -> add "malformed-C");
    (match find "P" with
     | [p1; p2] ->
       if p1 <> string_of_z (spec_perft (n_of_int 1) g) then add "C14:perft1";
       if p2 <> string_of_z (spec_perft (n_of_int 2) g) then add "C14:perft2"
     | _ -> add "malformed-P")
  end;
  if !bad = [] then "OK" else "BAD " ^ String.concat " " (List.rev !bad)

(* specperft <d> <game> *)
let do_specperft (t : string list) : string =
  match t with d :: r -> string_of_z (spec_perft (n_of_string d) (parse_game (Array.of_list r) 0)) | [] -> "BADREQ"

(* ---- search ---- *)
let flag_char = function FAlpha -> "A" | FBeta -> "B" | FExact -> "E"
let render_event (ev : (game, move) event) : string =
  match ev with
  | ENode (q, g, ply, d, a, b, n, s, ri, rs) ->
    Printf.sprintf "N%d ply=%d d=%d a=%s b=%s n=%s s=%s ri=%d rs=%s g=%s" (if q then 1 else 0) (int_of_nat ply) (int_of_nat d)
      (string_of_z a) (string_of_z b) (string_of_n n) (b2s s) (int_of_nat ri) (hex_of_n rs) (game_fields g)
  | ETTHit s -> "TTHIT " ^ string_of_z s
  | ERepHit -> "REPHIT"
  | EVerdict (m, p) -> Printf.sprintf "VERDICT %s %d" (if m then "mate" else "stalemate") (int_of_nat p)
  | EPV (p, m) -> Printf.sprintf "PV %d %s" (int_of_nat p) (move_fields m)
  | ETTRec (h, s, d, f, p) -> Printf.sprintf "TTREC %s %s %d %s %d" (hex_of_n h) (string_of_z s) (int_of_nat d) (flag_char f) (int_of_nat p)
  | EPoll (k, n, st) -> Printf.sprintf "POLL %d n=%s stop=%s" (int_of_nat k) (string_of_n n) (b2s st)
  | EStopRaised -> "STOPRAISED"

let rec take n l = if n <= 0 then [] else match l with [] -> [] | x :: r -> x :: take (n - 1) r

let do_searchseq (t : string list) : string =
  let a = Array.of_list t in
  let n = int_of_string a.(0) in
  let i = ref 1 in
  let tt = ref (table []) in
  let answers = ref [] in
  for _ = 1 to n do
    let depth = z_of_string a.(!i) and stopk = z_of_string a.(!i + 1) and extra = n_of_string a.(!i + 2)
    and bypass = (a.(!i + 3) = "1") and trace = int_of_string a.(!i + 4) and nh = int_of_string a.(!i + 5) in
    i := !i + 6;
    let hist = List.init nh (fun k -> n_of_hex a.(!i + k)) in
    i := !i + nh;
    let g = parse_game a !i in
    i := !i + 21;
    let rt = hist @ List.init (1000 - nh) (fun _ -> N0) in
    let ans =
      (match c_search extra stopk bypass g depth !tt rt (nat_of_int nh) with
       | SFuel -> "OUTOFFUEL"
       | SDone (outs, e, _) ->
         tt := e.tbl;
         let native = String.concat " ;; " (List.map (fun o -> string_of_coq (render_out o)) outs) in
         let pvlen0 = (match e.pvlen with x :: _ -> int_of_nat x | [] -> 0) in
         let row0 = (match e.pvtab with r :: _ -> r | [] -> []) in
         let pv = String.concat "" (List.map (fun m -> move_fields m ^ ",") (take (min pvlen0 64) row0)) in
         let best = (match row0 with m :: _ -> move_fields m | [] -> "?") in
         let rep_same = (int_of_nat e.ridx = nh && take nh e.rtab = hist) in
         (* largest number of nodes between consecutive polls (trace is newest first) *)
         let poll_nodes = List.rev (List.filter_map (function EPoll (_, n, _) -> Some (int_of_string (string_of_n n)) | _ -> None) e.trace) in
         let final_nodes = int_of_string (string_of_n e.nodes) in
         let (lastp, mg) = List.fold_left (fun (lp, mg) n -> (n, max mg (n - lp))) (0, 0) poll_nodes in
         let maxgap = max mg (final_nodes - lastp) in
         let endl = Printf.sprintf "END ply=%d rep=%d stopping=%s nodes=%s pvlen=%d pv=%s best=%s maxgap=%d GAME_SAME=1 REP_SAME=%s"
             (int_of_nat e.ply) (int_of_nat e.ridx) (b2s e.stopping) (string_of_n e.nodes) pvlen0 pv best maxgap (b2s rep_same) in
         let evs = List.rev_map render_event e.trace in
         let tr =
           if trace = 2 then String.concat " ;; " evs
           else if trace = 1 then Printf.sprintf "NEV=%d H=%s" (List.length evs) (fnv (String.concat "" (List.map (fun l -> l ^ "\n") evs)))
           else "" in
         native ^ " || " ^ endl ^ " || " ^ tr) in
    answers := ans :: !answers
  done;
  String.concat " ## " (List.rev !answers)

(* ---- judging an implementation's answer to one search (Monitors.v + Spec) ---- *)
let split_str (sep : string) (s : string) : string list =
  (* split on a multi-character separator *)
  let n = String.length sep and l = String.length s in
  let rec go start i acc =
    if i > l - n then List.rev (String.sub s start (l - start) :: acc)
    else if String.sub s i n = sep then go (i + n) (i + n) (String.sub s start (i - start) :: acc)
    else go start (i + 1) acc in
  if l = 0 then [""] else go 0 0 []

let words (s : string) = List.filter (fun x -> x <> "") (String.split_on_char ' ' s)
let after_eq (s : string) = match String.index_opt s '=' with Some i -> String.sub s (i + 1) (String.length s - i - 1) | None -> s

let parse_event (line : string) : (game, move) event option =
  match words line with
  | ("N0" | "N1" as k) :: ply :: d :: a :: b :: n :: st :: ri :: rs :: g0 :: grest ->
    let gt = Array.of_list (after_eq g0 :: grest) in
    Some (ENode ((k = "N1"), parse_game gt 0, nat_of_int (int_of_string (after_eq ply)), nat_of_int (int_of_string (after_eq d)),
                 z_of_string (after_eq a), z_of_string (after_eq b), n_of_string (after_eq n), (after_eq st = "1"),
                 nat_of_int (int_of_string (after_eq ri)), n_of_hex (after_eq rs)))
  | ["TTHIT"; sc] -> Some (ETTHit (z_of_string sc))
  | ["REPHIT"] -> Some ERepHit
  | ["VERDICT"; m; p] -> Some (EVerdict ((m = "mate"), nat_of_int (int_of_string p)))
  | ["PV"; p; m] -> Some (EPV (nat_of_int (int_of_string p), parse_move m))
  | ["TTREC"; h; sc; d; f; p] -> Some (ETTRec (n_of_hex h, z_of_string sc, nat_of_int (int_of_string d), flag_of f, nat_of_int (int_of_string p)))
  | ["POLL"; k; n; st] -> Some (EPoll (nat_of_int (int_of_string k), n_of_string (after_eq n), (after_eq st = "1")))
  | ["STOPRAISED"] -> Some EStopRaised
  | _ -> None

let smove_of_uci (u : string) : smove option =
  let l = String.length u in
  if l < 4 || l > 5 then None else
  let f c = Char.code c - 97 and r c = Char.code c - 49 in
  let ok x = x >= 0 && x < 8 in
  let f1 = f u.[0] and r1 = r u.[1] and f2 = f u.[2] and r2 = r u.[3] in
  if not (ok f1 && ok r1 && ok f2 && ok r2) then None else
  let pr = if l = 5 then (match u.[4] with 'n' -> Some (Some Knight) | 'b' -> Some (Some Bishop) | 'r' -> Some (Some Rook) | 'q' -> Some (Some Queen) | _ -> None) else Some None in
  match pr with None -> None | Some p -> Some { sfrom = (z_of_int f1, z_of_int r1); sto = (z_of_int f2, z_of_int r2); spromo = p }

let run_trace_monitors (hist : n list) (tr : (game, move) event list) : string list =
  let s = mon_nodes hist tr in
  let tag name v = if v = N0 then [] else [Printf.sprintf "%s@%s" name (string_of_n v)] in
  tag "C06:node" s.bad06 @ tag "C06:verdict" s.bad06v @ tag "C07:missed" s.bad07m @ tag "C07:false" s.bad07f @
  tag "C09:write-after-stop" (mon_frame tr false (n_of_int 1)) @ tag "C09:cadence" (mon_cadence tr N0 (n_of_int 1))

(* judgesearch H k1..kH <game> @ <answer of one search> *)
let do_judgesearch (t : string list) : string =
  let (hd, ans) = split_on "@" t in
  let a = Array.of_list hd in
  let nh = int_of_string a.(0) in
  let hist = List.init nh (fun k -> n_of_hex a.(1 + k)) in
  let g = parse_game a (1 + nh) in
  let text = String.concat " " ans in
  let bad = ref [] in
  let add s = bad := s :: !bad in
  (match split_str " || " text with
   | [native; endl; trace] | [native; endl; trace; _] ->
     let lines = List.filter (fun l -> String.trim l <> "") (split_str " ;; " native) in
     let has_legal = spec_has_legal g in
     let nbest = ref 0 in
     List.iter (fun l ->
       match words l with
       | "info" :: rest ->
         let rec pv = function "pv" :: r -> r | _ :: r -> pv r | [] -> [] in
         let ms = List.map smove_of_uci (pv rest) in
         if List.mem None ms then add "C12:pv-syntax"
         else if not (spec_legal_line g (List.filter_map (fun x -> x) ms)) then add "C12:pv-illegal"
       | ["bestmove"; u] ->
         incr nbest;
         (match smove_of_uci u with
          | None -> if has_legal then add "C03:bestmove-syntax"
          | Some m -> if has_legal && not (spec_legal_line g [m]) then add "C03:bestmove-illegal")
       | _ -> add "C12:unexpected-line") lines;
     if !nbest <> 1 then add "C03:bestmove-count";
     let tr_lines = List.filter (fun l -> String.trim l <> "") (split_str " ;; " trace) in
     (match tr_lines with
      | [] -> ()
      | l :: _ when String.length l >= 4 && String.sub l 0 4 = "NEV=" -> ()
      | _ ->
        let evs = List.map parse_event tr_lines in
        if List.mem None evs then add "trace-unparsable"
        else List.iter add (run_trace_monitors hist (List.filter_map (fun x -> x) evs)));
     ignore endl
   | _ -> add "answer-malformed");
  if !bad = [] then "OK" else "BAD " ^ String.concat " " (List.rev !bad)

(* judgemate <game> @ <answer of one search>: C11 on every info line with a mate score, plus the mate-in-one clause *)
let do_judgemate (t : string list) : string =
  (* optional first token L<k>: announced distances up to k moves are decided by the exhaustive solver (default 2; 3 is affordable on sparse positions) *)
  let (limit, t) = match t with
    | x :: r when String.length x = 2 && x.[0] = 'L' -> (int_of_string (String.sub x 1 1), r)
    | _ -> (2, t) in
  let memo : (int, bool) Hashtbl.t = Hashtbl.create 8 in
  let solved (n : int) (f : unit -> bool) : bool =
    match Hashtbl.find_opt memo n with Some v -> v | None -> let v = f () in Hashtbl.add memo n v; v in
  let (gt, ans) = split_on "@" t in
  let g = parse_game (Array.of_list gt) 0 in
  let text = String.concat " " ans in
  let bad = ref [] and notes = ref [] in
  let add s = bad := s :: !bad in
  (match split_str " || " text with
   | native :: _ ->
     let lines = List.filter (fun l -> String.trim l <> "") (split_str " ;; " native) in
     let m1 = spec_mates_in (n_of_int 1) g in
     let last_info = ref None and maxdepth = ref 0 in
     List.iter (fun l ->
       match words l with
       | "info" :: "score" :: kind :: v :: "depth" :: d :: rest ->
         let rec pv = function "pv" :: r -> r | _ :: r -> pv r | [] -> [] in
         let ms = List.filter_map smove_of_uci (pv rest) in
         last_info := Some (kind, int_of_string v, ms); maxdepth := int_of_string d;
         if kind = "mate" then begin
           let n = int_of_string v in
           if n = 0 then (if not (spec_mated_in (n_of_int 0) g) then add "C11:false-mate-0")
           else if abs n <= limit then begin
             if n > 0 && not (solved n (fun () -> spec_mates_in (n_of_int n) g)) then add (Printf.sprintf "C11:false-mate+%d" n);
             if n < 0 && not (solved n (fun () -> spec_mated_in (n_of_int (- n)) g)) then add (Printf.sprintf "C11:false-mate%d" n)
           end else notes := "unchecked-distance" :: !notes;
           if spec_legal_line g ms && spec_line_mates g ms then begin
             let want = if n > 0 then 2 * n - 1 else 2 * (- n) in
             if List.length ms <> want then add (Printf.sprintf "C11:pv-length(%d,mate %d)" (List.length ms) n)
           end
         end
       | ["bestmove"; u] ->
         if m1 && !maxdepth >= 3 then begin
           (match !last_info with
            | Some ("mate", 1, _) -> ()
            | _ -> add "C11:mate-in-one-not-reported");
           (match smove_of_uci u with
            | Some m -> if not (spec_legal_line g [m] && spec_line_mates g [m]) then add "C11:mate-in-one-not-played"
            | None -> add "C11:mate-in-one-not-played")
         end
       | _ -> ()) lines
   | [] -> add "answer-malformed");
  if !bad = [] then "OK" ^ (if !notes <> [] then " " ^ String.concat " " !notes else "") else "BAD " ^ String.concat " " (List.rev !bad)

let do_eval (t : string list) : string = string_of_z (evaluate (parse_game (Array.of_list t) 0))

let do_fen (text : string) : string =
  match new_from_fen (coq_of_string text) with
  | FPanic -> "PANIC" | FNone -> "NONE" | FOk g -> game_fields g
let do_position (text : string) : string =
  match parse_position (coq_of_string text) with
  | FPanic -> "PANIC" | FNone -> "NONE"
  | FOk (g, keys) -> game_fields g ^ " | " ^ String.concat " " (List.map hex_of_n keys)

(* session <extra> ## <delay>|<line> ## ... : the UCI main-loop model *)
let do_session (text : string) : string =
  match split_str " ## " text with
  | hd :: items ->
    let extra = n_of_string (String.trim hd) in
    let input = List.map (fun it ->
        match String.index_opt it '|' with
        | Some i -> (nat_of_int (int_of_string (String.sub it 0 i)), coq_of_string (String.sub it (i + 1) (String.length it - i - 1)))
        | None -> (nat_of_int 0, coq_of_string it)) items in
    let (outs, st) = uci_session extra [] input in   (* no deadline oracles: the scripted sessions never run a search with a positive time budget *)
    let render = function
      | OText s -> string_of_coq s
      | OSearchOut o -> string_of_coq (render_out o)
      | ODisplay g -> "DISPLAY 0x" ^ hex_of_n (make_zobrist_hash g)
      | OEval v -> " " ^ string_of_z v
      | OPerft (d, lines, total) ->
        (* per-move lines sorted: rayon prints them in any order *)
        let ls = List.sort compare (List.map (fun (s, n) -> string_of_coq s ^ ": " ^ string_of_n n) lines) in
        "PERFT " ^ string_of_n d ^ " " ^ string_of_n total ^ " [" ^ String.concat "," ls ^ "]"
      | OUnmodelled c -> "UNMODELLED " ^ string_of_coq c in
    String.concat " ;; " (List.map render outs) ^ " ;; " ^ (match st with Exit -> "EXIT" | UPanic -> "PANIC" | Continue -> "OUT-OF-FUEL")
  | [] -> "BADREQ"

let () =
  try
    while true do
      let line = input_line stdin in
      if String.length line >= 8 && String.sub line 0 8 = "session " then print_endline (do_session (String.sub line 8 (String.length line - 8)))
      else if String.length line >= 4 && String.sub line 0 4 = "fen " then print_endline (do_fen (String.sub line 4 (String.length line - 4)))
      else if String.length line >= 9 && String.sub line 0 9 = "position " then print_endline (do_position (String.sub line 9 (String.length line - 9)))
      else
      let toks = List.filter (fun s -> s <> "") (String.split_on_char ' ' line) in
      (match toks with
       | [] -> ()
       | "tt" :: r -> print_endline (do_tt r)
       | "ttmon" :: r -> print_endline (do_ttmon r)
       | "go" :: r -> print_endline (do_go r)
       | "att" :: r -> print_endline (do_att r)
       | "pos" :: r -> print_endline (do_pos r)
       | "succ" :: r -> print_endline (do_succ r)
       | "rekey" :: r -> print_endline (do_rekey r)
       | "eval" :: r -> print_endline (do_eval r)
       | "judge" :: r -> print_endline (do_judge r)
       | "searchseq" :: r -> print_endline (do_searchseq r)
       | "judgesearch" :: r -> print_endline (do_judgesearch r)
       | "judgemate" :: r -> print_endline (do_judgemate r)
       | "minimax" :: d :: r -> print_endline (string_of_z (minimax_fast (parse_game (Array.of_list r) 0) (n_of_string d)))
       | "matesin" :: n :: r -> print_endline (b2s (spec_mates_in (n_of_string n) (parse_game (Array.of_list r) 0)))
       | "wf" :: r -> print_endline (b2s (wf (parse_game (Array.of_list r) 0)))
       | "inv" :: r -> print_endline (b2s (legal_inv_b (parse_game (Array.of_list r) 0)))
       | "fendesc" :: r ->
         (* fendesc <21 game fields> | <fen text> : does the text describe the position, in the sense of the theorem's executable hypothesis *)
         let (gt, ft) = split_on "|" r in
         print_endline (b2s (fen_describes (parse_game (Array.of_list gt) 0) (coq_of_string (String.concat " " ft))))
       | "inv3" :: r -> let g = parse_game (Array.of_list r) 0 in print_endline (b2s (legal_inv_b g) ^ b2s (men16_b g) ^ b2s (prow2_b g))
       | "mirror" :: r -> print_endline (game_fields (mirror (parse_game (Array.of_list r) 0)))
       | "specperft" :: r -> print_endline (do_specperft r)
       | "perft" :: d :: r -> print_endline (string_of_n (perft_n (n_of_string d) (parse_game (Array.of_list r) 0)))
       | x :: _ -> print_endline ("BADREQ " ^ x))
    done
  with End_of_file -> ()
