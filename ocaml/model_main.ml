(* Runs the extracted Coq model on the same request lines the in-crate Rust driver answers. *)
open Model
open Conv

let flag_of = function "A" -> FAlpha | "B" -> FBeta | _ -> FExact

let rec parse_tt = function
  | "R" :: h :: s :: d :: f :: p :: r -> RRec (n_of_hex h, z_of_string s, n_of_string d, flag_of f, z_of_string p) :: parse_tt r
  | "P" :: h :: d :: a :: b :: p :: r -> RProbe (n_of_hex h, n_of_string d, z_of_string a, z_of_string b, z_of_string p) :: parse_tt r
  | "C" :: r -> RClr :: parse_tt r
  | [] -> []
  | x :: _ -> failwith ("BADOP " ^ x)

(* ttmon <ops> | <answers>: the Coq monitor (Spec.TTSpec.monitor) applied to the engine's answers *)
let do_ttmon (t : string list) : string =
  let rec split acc = function "|" :: r -> (List.rev acc, r) | x :: r -> split (x :: acc) r | [] -> (List.rev acc, []) in
  let (ops, ans) = split [] t in
  let answers = List.map (function "U" -> None | s -> Some (z_of_string s)) ans in
  if monitor [] (parse_tt ops) answers then "OK" else "REJECT"

let do_tt (t : string list) : string =
  let reqs = parse_tt t in
  let res = run_reqs (table []) reqs in
  String.concat " " (List.map (function None -> "U" | Some s -> string_of_z s) res)

(* go <side> <kw> <value> ... *)
let do_go (t : string list) : string =
  match t with
  | side :: rest ->
    let rec parse = function
      | "infinite" :: r -> (Kinfinite, z_of_int 0) :: parse r
      | k :: v :: r ->
        let kw = (match k with "binc" -> Kbinc | "winc" -> Kwinc | "btime" -> Kbtime | "wtime" -> Kwtime
                             | "movestogo" -> Kmovestogo | "movetime" -> Kmovetime | "depth" -> Kdepth
                             | _ -> failwith ("BADKW " ^ k)) in
        (kw, z_of_string v) :: parse r
      | [] -> []
      | [k] -> failwith ("BADKW " ^ k) in
    (match parse_go (side = "1") (parse rest) with
     | None -> "NOSEARCH"
     | Some (d, mt) -> string_of_z d ^ " " ^ string_of_z mt)
  | [] -> "BADREQ"

(* att <sq> <occ>: the specification's attack sets (Spec.Rays), which C15 proves equal to the table model *)
let do_att (t : string list) : string =
  match t with
  | [sq; occ] ->
    let s = n_of_string sq and o = n_of_hex occ in
    let r = slide rook_dirs s o and b = slide bishop_dirs s o in
    String.concat " " (List.map hex_of_n
      [r; b; N.coq_lor r b; leaper knight_offs s; leaper king_offs s; leaper wpawn_offs s; leaper bpawn_offs s])
  | _ -> "BADREQ"

(* ---- chess core ---- *)
let parse_game (t : string array) (o : int) : game =
  let bb = List.init 12 (fun i -> n_of_hex t.(o + i)) in
  { bbs = bb; wocc = n_of_hex t.(o + 12); bocc = n_of_hex t.(o + 13); aocc = n_of_hex t.(o + 14);
    white = (t.(o + 15) = "1"); ep = n_of_string t.(o + 16); castling = n_of_string t.(o + 17);
    half = n_of_string t.(o + 18); full = n_of_string t.(o + 19); hash = n_of_hex t.(o + 20) }

let game_fields ?(sep = " ") (g : game) : string =
  String.concat sep (List.map hex_of_n g.bbs @ [hex_of_n g.wocc; hex_of_n g.bocc; hex_of_n g.aocc;
    (if g.white then "1" else "0"); string_of_n g.ep; string_of_n g.castling; string_of_n g.half; string_of_n g.full; hex_of_n g.hash])

let b2s b = if b then "1" else "0"
let move_fields (m : move) : string =
  Printf.sprintf "%d:%d:%d:%d:%s%s%s%s" (int_of_n m.mfrom) (int_of_n m.mto) (int_of_n m.mpiece) (int_of_n m.mpromo)
    (b2s m.mcap) (b2s m.mdp) (b2s m.mep) (b2s m.mcastle)

let do_pos (t : string list) : string =
  let a = Array.of_list t in
  let g = parse_game a 0 in
  let all = generate_moves g true and q = generate_moves g false in
  let buf = Buffer.create 4096 in
  Buffer.add_string buf "A";
  List.iter (fun m -> Buffer.add_char buf ' '; Buffer.add_string buf (move_fields m)) all;
  Buffer.add_string buf " | Q";
  List.iter (fun m -> Buffer.add_char buf ' '; Buffer.add_string buf (move_fields m)) q;
  Buffer.add_string buf " | L ";
  List.iter (fun m -> Buffer.add_string buf (b2s (is_legal g m))) all;
  Buffer.add_string buf " | LQ ";
  List.iter (fun m -> Buffer.add_string buf (b2s (is_legal g m))) q;
  Buffer.add_string buf " | M";
  let mk = Buffer.create 1024 in
  List.iter (fun m ->
    match make_search_move g m with
    | Illegal -> Buffer.add_string buf " I"; Buffer.add_string mk " -"
    | MPanic -> Buffer.add_string buf " PANIC"; Buffer.add_string mk " -"
    | Made g' -> Buffer.add_char buf ' '; Buffer.add_string buf (game_fields ~sep:"," g');
                 Buffer.add_char mk ' '; Buffer.add_string mk (hex_of_n (make_zobrist_hash g'))) all;
  Buffer.add_string buf " | MK"; Buffer.add_buffer buf mk;
  Buffer.add_string buf (Printf.sprintf " | E %s | K %s | C %s" (string_of_z (evaluate g)) (hex_of_n (make_zobrist_hash g)) (b2s (is_in_check g g.white)));
  Buffer.add_string buf (Printf.sprintf " | P %s %s" (string_of_n (perft1 g)) (string_of_n (perft2 g)));
  Buffer.contents buf

(* succ <game>: legal successors, for the position generator: "<move>=<fields,>" ... *)
let do_succ (t : string list) : string =
  let g = parse_game (Array.of_list t) 0 in
  String.concat " " (List.filter_map (fun m ->
    match make_search_move g m with Made g' -> Some (move_fields m ^ "=" ^ game_fields ~sep:"," g') | _ -> None) (generate_moves g true))

(* rekey <game>: the same game with its key recomputed from scratch *)
let do_rekey (t : string list) : string =
  let g = parse_game (Array.of_list t) 0 in
  game_fields { g with hash = make_zobrist_hash g }

(* judge <game> @ <an implementation's answer to pos>: the Coq monitors (Model/Abs.v) applied to that answer *)
let parse_move (s : string) : move =
  match String.split_on_char ':' s with
  | [f; t; p; pr; fl] ->
    { mfrom = n_of_string f; mto = n_of_string t; mpiece = n_of_string p; mpromo = n_of_string pr;
      mcap = (fl.[0] = '1'); mdp = (fl.[1] = '1'); mep = (fl.[2] = '1'); mcastle = (fl.[3] = '1') }
  | _ -> failwith ("bad move " ^ s)

let split_on (sep : string) (l : string list) : string list * string list =
  let rec go acc = function x :: r when x = sep -> (List.rev acc, r) | x :: r -> go (x :: acc) r | [] -> (List.rev acc, []) in
  go [] l

let do_judge (t : string list) : string =
  let (gt, ans) = split_on "@" t in
  let g = parse_game (Array.of_list gt) 0 in
  (* sections separated by "|" *)
  let rec sections acc cur = function
    | "|" :: r -> sections (List.rev cur :: acc) [] r
    | x :: r -> sections acc (x :: cur) r
    | [] -> List.rev (List.rev cur :: acc) in
  let secs = sections [] [] ans in
  let find tag = match List.find_opt (function x :: _ -> x = tag | [] -> false) secs with Some (_ :: r) -> r | _ -> [] in
  let all = List.map parse_move (find "A") and q = List.map parse_move (find "Q") in
  let bits s = match s with [b] -> List.init (String.length b) (fun i -> b.[i] = '1') | _ -> [] in
  let l = bits (find "L") and lq = bits (find "LQ") in
  let m = find "M" and mk = find "MK" in
  let bad = ref [] in
  let add s = bad := s :: !bad in
  if List.length l <> List.length all || List.length lq <> List.length q || List.length m <> List.length all then add "malformed"
  else begin
    let by_filter = List.filter_map (fun (mv, b) -> if b then Some mv else None) (List.combine all l) in
    let made = List.combine all m in
    let by_make = List.filter_map (fun (mv, r) -> if r <> "I" then Some mv else None) made in
    if by_filter <> by_make then add "C01:legality-paths-differ";
    if not (mon_legal_set g by_filter) then add "C01:legal-set(filter)";
    if not (mon_legal_set g by_make) then add "C01:legal-set(make)";
    let by_filter_q = List.filter_map (fun (mv, b) -> if b then Some mv else None) (List.combine q lq) in
    if not (mon_capture_set g by_filter_q) then add "C01:capture-set";
    List.iteri (fun i (mv, r) ->
      if r <> "I" then begin
        let f = Array.of_list (String.split_on_char ',' r) in
        if Array.length f <> 21 then add ("C02:successor-malformed:" ^ move_fields mv)
        else begin
          let g' = parse_game f 0 in
          if not (mon_make g mv g') then add ("C02:successor:" ^ move_fields mv);
          (match List.nth_opt mk i with
           | Some k when k = hex_of_n g'.hash -> ()
           | _ -> add ("C04:incremental-key:" ^ move_fields mv))
        end
      end) made;
    (match find "C" with [c] -> if (c = "1") <> spec_in_check g then add "C01:in-check" | _ -> add "malformed-C");
    (match find "P" with
     | [p1; p2] ->
       if p1 <> string_of_z (spec_perft (n_of_int 1) g) then add "C14:perft1";
       if p2 <> string_of_z (spec_perft (n_of_int 2) g) then add "C14:perft2"
     | _ -> add "malformed-P")
  end;
  if !bad = [] then "OK" else "BAD " ^ String.concat " " (List.rev !bad)

(* specperft <d> <game> *)
let do_specperft (t : string list) : string =
  match t with d :: r -> string_of_z (spec_perft (n_of_string d) (parse_game (Array.of_list r) 0)) | [] -> "BADREQ"

let do_eval (t : string list) : string = string_of_z (evaluate (parse_game (Array.of_list t) 0))

let () =
  try
    while true do
      let line = input_line stdin in
      let toks = List.filter (fun s -> s <> "") (String.split_on_char ' ' line) in
      (match toks with
       | [] -> ()
       | "tt" :: r -> print_endline (do_tt r)
       | "ttmon" :: r -> print_endline (do_ttmon r)
       | "go" :: r -> print_endline (do_go r)
       | "att" :: r -> print_endline (do_att r)
       | "pos" :: r -> print_endline (do_pos r)
       | "succ" :: r -> print_endline (do_succ r)
       | "rekey" :: r -> print_endline (do_rekey r)
       | "eval" :: r -> print_endline (do_eval r)
       | "judge" :: r -> print_endline (do_judge r)
       | "wf" :: r -> print_endline (b2s (wf (parse_game (Array.of_list r) 0)))
       | "specperft" :: r -> print_endline (do_specperft r)
       | "perft" :: d :: r -> print_endline (string_of_n (perft_n (n_of_string d) (parse_game (Array.of_list r) 0)))
       | x :: _ -> print_endline ("BADREQ " ^ x))
    done
  with End_of_file -> ()
