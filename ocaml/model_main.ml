(* Runs the extracted Coq model on the same request lines the in-crate Rust driver answers. *)
open Model
open Conv

let flag_of = function "A" -> FAlpha | "B" -> FBeta | _ -> FExact

let rec parse_tt = function
  | "R" :: h :: s :: d :: f :: p :: r -> RRec (n_of_hex h, z_of_string s, n_of_string d, flag_of f, z_of_string p) :: parse_tt r
  | "P" :: h :: d :: a :: b :: p :: r -> RProbe (n_of_hex h, n_of_string d, z_of_string a, z_of_string b, z_of_string p) :: parse_tt r
  | "C" :: r -> RClr :: parse_tt r
  | [] -> []
  | x :: _ -> failwith ("BADOP " ^ x)

(* ttmon <ops> | <answers>: the Coq monitor (Spec.TTSpec.monitor) applied to the engine's answers *)
let do_ttmon (t : string list) : string =
  let rec split acc = function "|" :: r -> (List.rev acc, r) | x :: r -> split (x :: acc) r | [] -> (List.rev acc, []) in
  let (ops, ans) = split [] t in
  let answers = List.map (function "U" -> None | s -> Some (z_of_string s)) ans in
  if monitor [] (parse_tt ops) answers then "OK" else "REJECT"

let do_tt (t : string list) : string =
  let reqs = parse_tt t in
  let res = run_reqs (table []) reqs in
  String.concat " " (List.map (function None -> "U" | Some s -> string_of_z s) res)

let () =
  try
    while true do
      let line = input_line stdin in
      let toks = List.filter (fun s -> s <> "") (String.split_on_char ' ' line) in
      (match toks with
       | [] -> ()
       | "tt" :: r -> print_endline (do_tt r)
       | "ttmon" :: r -> print_endline (do_ttmon r)
       | x :: _ -> print_endline ("BADREQ " ^ x))
    done
  with End_of_file -> ()
