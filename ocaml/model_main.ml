(* Runs the extracted Coq model on the same request lines the in-crate Rust driver answers. *)
open Model
open Conv

let flag_of = function "A" -> FAlpha | "B" -> FBeta | _ -> FExact

let rec parse_tt = function
  | "R" :: h :: s :: d :: f :: p :: r -> RRec (n_of_hex h, z_of_string s, n_of_string d, flag_of f, z_of_string p) :: parse_tt r
  | "P" :: h :: d :: a :: b :: p :: r -> RProbe (n_of_hex h, n_of_string d, z_of_string a, z_of_string b, z_of_string p) :: parse_tt r
  | "C" :: r -> RClr :: parse_tt r
  | [] -> []
  | x :: _ -> failwith ("BADOP " ^ x)

(* ttmon <ops> | <answers>: the Coq monitor (Spec.TTSpec.monitor) applied to the engine's answers *)
let do_ttmon (t : string list) : string =
  let rec split acc = function "|" :: r -> (List.rev acc, r) | x :: r -> split (x :: acc) r | [] -> (List.rev acc, []) in
  let (ops, ans) = split [] t in
  let answers = List.map (function "U" -> None | s -> Some (z_of_string s)) ans in
  if monitor [] (parse_tt ops) answers then "OK" else "REJECT"

let do_tt (t : string list) : string =
  let reqs = parse_tt t in
  let res = run_reqs (table []) reqs in
  String.concat " " (List.map (function None -> "U" | Some s -> string_of_z s) res)

(* go <side> <kw> <value> ... *)
let do_go (t : string list) : string =
  match t with
  | side :: rest ->
    let rec parse = function
      | "infinite" :: r -> (Kinfinite, z_of_int 0) :: parse r
      | k :: v :: r ->
        let kw = (match k with "binc" -> Kbinc | "winc" -> Kwinc | "btime" -> Kbtime | "wtime" -> Kwtime
                             | "movestogo" -> Kmovestogo | "movetime" -> Kmovetime | "depth" -> Kdepth
                             | _ -> failwith ("BADKW " ^ k)) in
        (kw, z_of_string v) :: parse r
      | [] -> []
      | [k] -> failwith ("BADKW " ^ k) in
    (match parse_go (side = "1") (parse rest) with
     | None -> "NOSEARCH"
     | Some (d, mt) -> string_of_z d ^ " " ^ string_of_z mt)
  | [] -> "BADREQ"

(* att <sq> <occ>: the specification's attack sets (Spec.Rays), which C15 proves equal to the table model *)
let do_att (t : string list) : string =
  match t with
  | [sq; occ] ->
    let s = n_of_string sq and o = n_of_hex occ in
    let r = slide rook_dirs s o and b = slide bishop_dirs s o in
    String.concat " " (List.map hex_of_n
      [r; b; N.coq_lor r b; leaper knight_offs s; leaper king_offs s; leaper wpawn_offs s; leaper bpawn_offs s])
  | _ -> "BADREQ"

let () =
  try
    while true do
      let line = input_line stdin in
      let toks = List.filter (fun s -> s <> "") (String.split_on_char ' ' line) in
      (match toks with
       | [] -> ()
       | "tt" :: r -> print_endline (do_tt r)
       | "ttmon" :: r -> print_endline (do_ttmon r)
       | "go" :: r -> print_endline (do_go r)
       | "att" :: r -> print_endline (do_att r)
       | x :: _ -> print_endline ("BADREQ " ^ x))
    done
  with End_of_file -> ()
